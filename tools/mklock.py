#!/usr/bin/env python3
"""writes obligations.lock.json from the evidence files of a passing run on the unchanged tree (vacuity guard: a later run
whose obligation *names* shrink, or whose count drops below 80 %, is undecided)"""
import json, glob, os
HERE = os.path.dirname(os.path.dirname(os.path.abspath(__file__)))
lock = {}
for f in sorted(glob.glob(os.path.join(HERE, 'evidence', 'C*.json'))):
    ev = json.load(open(f)); c = ev['coverage']
    if ev.get('tier') != 'quick': continue
    # names that carry a per-function suffix generated from the repo (scan) are kept out of the lock
    names = [n for n in c['obligation_names'] if ':cached-entry-points:spil.' not in n]
    lock[ev['property_id']] = {'names': names, 'min_obligations': int(c['obligations'] * 0.8)}
json.dump(lock, open(os.path.join(HERE, 'obligations.lock.json'), 'w'), indent=1)
print({k: (len(v['names']), v['min_obligations']) for k, v in lock.items()})
