#!/usr/bin/env python3
"""regenerates MANIFEST.json from the table below (claimed checks + not_applicable reasons)"""
import json, os
HERE = os.path.dirname(os.path.dirname(os.path.abspath(__file__)))
props = [json.loads(l) for l in open(os.path.join(HERE, 'properties.jsonl'))]
TRUST = ("z3 5.1 / cvc5 1.0.3 answers; pyvc's semantics of the Python subset, CPython `re` and str.format (cross-checked against CPython on "
         "every explored path, not proved); configuration snapshot taken from the live loader; assumed contracts listed in the evidence file")
CLAIMED = {
 'C01': dict(cat='proof', design='DESIGN.md 4/C01',
   text="Every '?'-free input string (unbounded, fully symbolic) is pushed through the real source of Sid() -> sid_factory -> sid_to_sid -> sid_to_dict -> resolva; "
        "per path the contract clauses (raises nothing, type = first full-match template of the template TEXT, fields = segments, string verbatim, untyped is falsy/len 0) "
        "are discharged by z3/cvc5. Proof relative to the loaded configuration (Pc).",
   technique='contract-based deductive verification: self-built VC generator (symbolic execution of the real ast, sidecar contracts, z3+cvc5)'),
}
NA = {}
DEFAULT_NA = 'check not built yet (see DESIGN.md for the plan)'
m = {"version": 1, "setup_cmd": "./setup.sh",
 "hooks": {"guard": "SPIL_VERIF", "enable": "no hooks: contracts are sidecar files in /verif/contracts; /repo sources are read, parsed and verified as they are on every run",
           "baseline_off_cmd": "cd /repo && /venv/bin/python -m pytest -ra -q -p no:cacheprovider --timeout=900 --continue-on-collection-errors",
           "source_commits": [], "add_only": True},
 "engines": [{"name": "pyvc", "path": "pyvc/", "serves_properties": sorted(CLAIMED),
              "kind_free_text": "self-built VC generator: symbolic executor over the ast of the real /repo sources (and of resolva's installed source) + sidecar contracts in contracts/; obligations discharged per path and per clause by z3 (python API) and /usr/bin/cvc5; CPython cross-check of every path; replay of counter-models on the real code"}],
 "checks": [], "not_applicable": [],
 "notes": "exit codes of ./check: 0 all obligations discharged, 1 refuted obligation (VIOLATION line), 2 undecided (unknown / outside subset / obligation set shrank), 3 checker fault (crash, CPython cross-check divergence, canary not refuted)"}
for p in props:
    i = p['id']
    if i in CLAIMED:
        c = CLAIMED[i]
        m['checks'].append({"property_id": i, "quick_cmd": f"./check {i} --tier quick", "thorough_cmd": f"./check {i} --tier thorough",
            "evidence_file": f"evidence/{i}.json", "replay_cmd_template": "./check --replay {path}", "engine": "pyvc",
            "level_claimed": {"category": c['cat'], "text": c['text'], "design_ref": c['design']},
            "level_note": c.get('note', TRUST), "technique": c['technique']})
    else:
        m['not_applicable'].append({"property_id": i, "reason": NA.get(i, DEFAULT_NA)})
json.dump(m, open(os.path.join(HERE, 'MANIFEST.json'), 'w'), indent=1)
print('claimed', sorted(CLAIMED), 'n/a', len(m['not_applicable']))
