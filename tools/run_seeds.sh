#!/bin/bash
# usage: run_seeds.sh [seed-id ...] : applies each stored seeded change to /repo, runs the quick check of its property (and any extra property given as seed:Cxx), reverts.
cd /verif
[ -z "$(git -C /repo status --porcelain)" ] || { echo "/repo is not clean"; exit 9; }
ids="$@"; [ -n "$ids" ] || ids=$(ls seeded)
SAVE=$(mktemp -d); cp -r evidence "$SAVE/"; trap 'rm -rf evidence; cp -r "$SAVE/evidence" evidence; rm -rf "$SAVE"' EXIT   # evidence files must come from runs on the unchanged tree
for s in $ids; do
  id=${s%%:*}; props=${s#*:}; [ "$props" = "$s" ] && props=$(python3 -c "import json;print(json.load(open('seeded/$id/meta.json'))['property'])")
  git -C /repo apply /verif/seeded/$id/patch.diff || { echo "$id: patch does not apply"; continue; }
  for p in ${props//,/ }; do
    t0=$(date +%s); out=$(./check $p --tier quick 2>&1); code=$?; t1=$(date +%s)
    viol=$(echo "$out" | grep -c '^VIOLATION'); first=$(echo "$out" | grep -m1 -A1 '^VIOLATION' | tr '\n' ' ' | cut -c1-260)
    echo "SEED $id check=$p exit=$code violations=$viol time=$((t1-t0))s :: $first"
  done
  git -C /repo checkout -- .
done
