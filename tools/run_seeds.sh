#!/bin/bash
# usage: run_seeds.sh [seed-id | seed-id:Cxx,Cyy ...] : applies each stored seeded change to a scratch git worktree of /repo (never to /repo itself),
# runs the quick check of its property (or the listed ones) against that tree (PYVC_REPO), records the outcome in seeded/<id>/meta.json, removes the worktree.
# Evidence of these runs goes to a scratch directory: the files under evidence/ always come from runs on the unchanged tree.
cd /verif
ids="$@"; [ -n "$ids" ] || ids=$(ls seeded)
EV=$(mktemp -d)
for s in $ids; do
  id=${s%%:*}; props=${s#*:}; [ "$props" = "$s" ] && props=$(python3 -c "import json;print(json.load(open('seeded/$id/meta.json'))['property'])")
  WT=$(mktemp -d -u /tmp/seedrun_XXXXXX)
  git -C /repo worktree add -q "$WT" HEAD || { echo "$id: cannot create worktree"; continue; }
  if git -C "$WT" apply /verif/seeded/$id/patch.diff; then
    for p in ${props//,/ }; do
      t0=$(date +%s); out=$(PYVC_REPO="$WT" PYTHONPATH="$WT" PYVC_EVIDENCE_DIR="$EV" ./check $p --tier quick 2>&1); code=$?; t1=$(date +%s)
      viol=$(echo "$out" | grep -c '^VIOLATION'); first=$(echo "$out" | grep -m1 -A1 '^VIOLATION' | tr '\n' ' ' | cut -c1-260)
      echo "SEED $id check=$p exit=$code violations=$viol time=$((t1-t0))s :: $first"
      python3 - "$id" "$p" "$code" "$viol" "$((t1-t0))" "$first" <<'PY'
import json, sys, re
id_, prop, code, viol, secs, first = sys.argv[1:7]
f = f'/verif/seeded/{id_}/meta.json'; m = json.load(open(f))
ob = re.search(r'obligation (\S+) refuted', first)
d = m.get('detected_by') or {}
if not isinstance(d, dict): d = {}
d[prop] = {'exit': int(code), 'violation_lines': int(viol), 'first_obligation': ob.group(1) if ob else None, 'no_failing_input_found': 'no-failing-input-found' in first, 'seconds': int(secs)}
m['detected_by'] = d
json.dump(m, open(f, 'w'), indent=1)
PY
    done
  else echo "$id: patch does not apply"; fi
  git -C /repo worktree remove --force "$WT"
done
rm -rf "$EV"
