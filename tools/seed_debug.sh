#!/bin/bash
# usage: seed_debug.sh <seed-id> <check args...> : runs ./check <args> against a scratch worktree with the seeded change applied and prints the whole output (debugging aid)
cd /verif; id=$1; shift
WT=$(mktemp -d -u /tmp/seeddbg_XXXXXX); EV=$(mktemp -d)
git -C /repo worktree add -q "$WT" HEAD && git -C "$WT" apply /verif/seeded/$id/patch.diff && PYVC_REPO="$WT" PYTHONPATH="$WT" PYVC_EVIDENCE_DIR="$EV" ./check "$@"; echo "exit=$?"
git -C /repo worktree remove --force "$WT"; rm -rf "$EV"
