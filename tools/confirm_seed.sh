#!/bin/bash
# usage: confirm_seed.sh <worktree> <seed-id> <property> ; confirms a seeded change (tests unchanged, demo fails with / passes without), stores it under /verif/seeded/<seed-id>, removes the worktree
set -u
WT=$1; ID=$2; PROP=$3
cd "$WT" || exit 9
git diff --quiet -- spil spil_hamlet_conf && { echo "change not applied in worktree"; exit 9; }
T=$(/venv/bin/python -m pytest -ra -q -p no:cacheprovider --timeout=900 --continue-on-collection-errors 2>&1 | tail -1)
echo "tests with change: $T"
/venv/bin/python demo.py > /tmp/demo_with.$$ 2>&1; W=$?
git apply -R mutant.diff || exit 9
/venv/bin/python demo.py > /tmp/demo_without.$$ 2>&1; WO=$?
T0=$(/venv/bin/python -m pytest -ra -q -p no:cacheprovider --timeout=900 --continue-on-collection-errors 2>&1 | tail -1)
git apply mutant.diff
echo "tests without change: $T0"; echo "demo exit with change: $W ; without: $WO"
A=$(echo "$T" | grep -o "[0-9]* failed, [0-9]* passed"); B=$(echo "$T0" | grep -o "[0-9]* failed, [0-9]* passed")
[ -n "$A" ] && [ "$A" = "$B" ] || { echo "REJECT: test suite differs ($A vs $B)"; exit 1; }
[ "$W" != 0 ] && [ "$WO" = 0 ] || { echo "REJECT: demo does not discriminate"; exit 1; }
D=/verif/seeded/$ID; mkdir -p $D
cp mutant.diff $D/patch.diff; cp demo.py $D/demo.py; [ -f notes.md ] && cp notes.md $D/notes.md
python3 - "$D" "$PROP" "$T" "$W" "$WO" <<'PY'
import json,sys
d,prop,t,w,wo=sys.argv[1:]
notes=open(d+'/notes.md').read() if __import__('os').path.exists(d+'/notes.md') else ''
json.dump({'property':prop,'needs_to_manifest':notes.strip()[:1500],'confirmed':{'test_suite_with_change':t.strip(),'demo_exit_with_change':int(w),'demo_exit_without_change':int(wo),
 'how':'tools/confirm_seed.sh in a scratch git worktree of /repo: pytest baseline command with the change applied; demo.py with the change and after git apply -R'},
 'detected_by':None},open(d+'/meta.json','w'),indent=1)
PY
rm -f /tmp/demo_with.$$ /tmp/demo_without.$$
cd / && git -C /repo worktree remove --force "$WT" && echo "stored $D, worktree removed"
