"""
C06 -- a path resolves only to the Sid that owns it, and never makes Sid() fail.

Functions under contract (real source, inlined): sid_factory.sid_factory (path branch), sid_factory.path_to_sid,
  fs_resolver.path_to_dict (through the real lru_kw_cache closure), fs_resolver.dict_to_path, sid.PathSid.path,
  sid_resolver.dict_to_sid, utils.get_key ; resolva methods interpreted from source.

requires  p: ANY string (fully symbolic, unbounded; shapes by number of '/'-segments up to the longest path template + 1),  c in the configured path configurations
ensures   Sid(path=p, config=c) raises nothing  (in particular no ResolvaException from the duplicate-placeholder check escapes)
          typed(result)  =>  str(result.path(c)) == p            (the statement's own clause; it quantifies over every mutation class)
          recorded finding C06-pathnorm (same root as C05-pathnorm): a path with an empty or '.' component at the place of a free-text
          field (asset, node) is typed with that empty / '.' field, and pathlib drops the component when the path is rendered again
          untyped result: empty type, no fields
"""
from __future__ import annotations
import z3
from pyvc.sstr import SStr, S, SBool, Var, simp, zb, OutsideSubset, template_re
from pyvc import interp as V
from pyvc.interp import PDict, PObj, Raised, Lazy, interleave
from pyvc import world as W
from . import common as C
from .c03 import obs_view, nview

PROPERTY = 'C06'
FUNCTIONS = {'spil/sid/core/sid_factory.py': ['sid_factory', 'path_to_sid'], 'spil/sid/pathops/fs_resolver.py': ['path_to_dict', 'dict_to_path'],
             'spil/sid/sid.py': ['PathSid.path', 'BaseSid.__new__', 'TypedSid._init'], 'spil/sid/core/sid_resolver.py': ['dict_to_sid'], 'spil/util/utils.py': ['get_key']}
TRUSTED = ['resolva methods + match_to_dict interpreted from source; re.search/groupdict modelled, including an unescaped "." in a path template (matches any character but newline, "/" included)',
           'pathlib.Path(str) / str(Path): identity on normalised posix strings (A-path-norm)',
           'pathconfig.get_path_config: returns the configuration object of the snapshot for the name (module import outside the subset)']
ASSUMPTIONS = ['pathlib.Path normalisation is modelled (empty and "." components dropped, trailing "/" dropped); a string starting with exactly "//" is outside the model',
               'for a multi-group file-name chunk decomposed into fresh group variables the engine uses *a* decomposition; the decomposition CPython returns is the same one by the per-chunk uniqueness lemmas of C05 (cross-checked per path)']
EXPLANATION = 'one fully symbolic path string per configuration; every path template tried in order by the real resolver'
BUDGET_S = {'quick': 1200, 'thorough': 3000}

def path_configs(): return list(W.take_snapshot()['pathconf'])
def cases(tier): return [('path', c) for c in path_configs()]

def run(it, st, case):
    _, c = case
    snap = it.world.snap
    rid = snap['pathconf'][c]['name']
    nmax = max(max(template_re(p).nsegs) for p in snap['resolvers'][rid]['regex'].values())
    it.split_max_open = nmax + 2
    p = st.fresh('p'); st.inputs['p'] = SStr([p]); st.inputs['config'] = c
    Sid = C.sid_class(it); name = 'C06:Sid(path=p)'
    try: y = it.call(Sid, [], {'path': SStr([p]), 'config': c})
    except Raised as e:
        st.oblige(f'{name}:raises-nothing', False, ('C06',), info={'exception': V.exc_name(e), 'args': repr(e.exc.attrs.get('args'))[:200]})
        st.observed = {'raises': V.exc_name(e)}; return 'ok'
    st.oblige(f'{name}:raises-nothing', True, ('C06',))
    if not isinstance(y, PObj): st.oblige(f'{name}:returns-a-Sid', False, ('C06',)); return 'ok'
    t, f, s = C.view(y)
    st.observed = obs_view(y)
    if not f:
        st.oblige(f'{name}:untyped-result-is-empty', t == '' and not f, ('C06',)); return 'ok'
    try: back = it.call(it.getattr(y, 'path'), [c], {})
    except Raised as e:
        st.oblige(f'{name}:path-of-the-result-raises-nothing', False, ('C06',), info={'exception': V.exc_name(e)}); return 'ok'
    if back is None:
        st.oblige(f'{name}:typed-result-has-exactly-this-path', False, ('C06',), info={'path': None, 'type': repr(t)}); return 'ok'
    st.inputs['result_fields'] = [v for _, v in f]
    st.oblige(f'{name}:typed-result-has-exactly-this-path', it.py_eq(it.to_str(back), SStr([p])), ('C06',), info={'type': repr(t)})
    st.observed['back'] = it.to_str(back)
    return 'ok'

# ------------------------------------------------------------------ native side
def crosscheck(case, conc, exp):
    Sid = C.native()['Sid']
    r = C.call_native(lambda: Sid(path=conc['p'], config=conc['config']))
    if r[0] == 'raise': got = {'raises': r[1]}
    else:
        got = nview(r[1])
        if 'back' in exp:
            b = C.call_native(lambda: r[1].path(conc['config'])); got['back'] = str(b[1]) if b[0] == 'ret' else {'raises': b[1]}
    if got != exp: return {'status': 'diverged', 'input': conc, 'cpython': got, 'engine': exp}
    return {'status': 'agree'}

def replay(case, ob, inputs):
    Sid = C.native()['Sid']; p, c = inputs['p'], inputs['config']
    C.clear_native_caches()
    r = C.call_native(lambda: Sid(path=p, config=c))
    call = f'Sid(path={p!r}, config={c!r})'
    if r[0] == 'raise': return {'confirmed': True, 'call': call, 'observed': f'raises {r[1]}: {r[2]}', 'expected': 'an untyped Sid', 'reproducer': f'from spil import Sid; {call}'}
    y = r[1]
    if not y: return {'confirmed': bool(y.type), 'call': call, 'observed': repr(C.native_view(y)), 'expected': 'untyped'}
    b = C.call_native(lambda: y.path(c))
    ok = b[0] == 'ret' and b[1] is not None and str(b[1]) == p
    return {'confirmed': not ok, 'call': call + f'.path({c!r})', 'observed': repr((C.native_view(y), str(b[1]) if b[0] == 'ret' else b))[:400], 'expected': f'untyped, or typed with path == {p!r}',
            'reproducer': f'from spil import Sid; y = {call}; print(y.type, y.path({c!r}))'}

def in_known_class(entry, inputs):
    """C06-pathnorm: the typed result has a field that is '' or '.' (pathlib.Path drops such a component when rendering)"""
    return isinstance(inputs, dict) and any(v in ('', '.') for v in (inputs.get('result_fields') or []))
