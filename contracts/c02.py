"""
C02 -- string, fields, query and uri forms of a typed Sid all denote the same Sid.

Functions under contract (real source, inlined): sid.py: TypedSid.uri, as_query, StringSid.copy, __repr__, __eq__ ; BaseSid.__new__ ;
  sid_factory: sid_factory, sid_to_sid, dict_to_sid ; sid_resolver: dict_to_type, dict_to_sid, sid_to_dict ;
  query_helper: to_string, to_dict, update, apply_query

requires  typed(x) of template T with natural typing (no earlier template of the same length accepts x's values), field values symbolic under
          their patterns and free of the reserved characters '?' ':'.   Query round trip additionally: values non-empty and made of
          characters that urlencode/parse_qsl leave alone (the property's own domain: no whitespace, no URL metacharacters).
ensures   Sid(x.uri), Sid(fields = x.fields in original / reversed / rotated key order), Sid(query = x.as_query()), x.copy()
          all return a Sid with view == view(x) [type, fields in template order, canonical string] and compare equal to x;
          repr(x) == "Sid('" + x.uri + "')"  (so eval(repr(x)) is Sid(x.uri));  nothing raises.
The canonical-string clause is the representation invariant wf established by every constructor (C01 for strings, here for dict / query / uri);
"equal exactly when type and fields are equal" is C14's __eq__ contract plus injectivity of the '/'-join on '/'-free values (structural).
Dictionary key order: every order-dependent operation on the dictionary in the callee chain is a keys()-vs-set comparison or a
format(**data) keyword lookup, both order-insensitive; the harness executes the original, the reversed and a rotated order.
"""
from __future__ import annotations
import z3
from pyvc.sstr import SStr, S, SBool, Var, simp, zb, OutsideSubset, pattern_re
from pyvc import interp as V
from pyvc.interp import PDict, PObj, Raised, Lazy, interleave
from . import common as C
from .c03 import obs_view, native_sid, nview, view_equal
from .c04 import restrict_reserved

PROPERTY = 'C02'
FUNCTIONS = {'spil/sid/sid.py': ['TypedSid.uri', 'TypedSid.as_query', 'StringSid.copy', 'StringSid.__repr__', 'StringSid.__eq__', 'BaseSid.__new__', 'TypedSid.fields'],
             'spil/sid/core/sid_factory.py': ['sid_factory', 'sid_to_sid', 'dict_to_sid'], 'spil/sid/core/sid_resolver.py': ['dict_to_type', 'dict_to_sid', 'sid_to_dict'],
             'spil/sid/core/query_helper.py': ['to_string', 'to_dict', 'update', 'apply_query']}
TRUSTED = ['resolva methods interpreted from source; re modelled; urllib.parse.urlencode / urlsplit / parse_qsl modelled on the stated domain']
ASSUMPTIONS = ["A-reserved: field values free of '?' and ':'", 'A-urllib: query round trip for non-empty values over [A-Za-z0-9_.*>,-] (no whitespace or URL metacharacters), the property\'s own domain',
               'dict order: original, reversed and rotated key orders are executed (argument for all orders in the contract text)']
EXPLANATION = 'every template, values symbolic under their patterns (search symbols and aliases included), natural typing assumed; five rebuild routes compared with view(x)'
BUDGET_S = {'quick': 900, 'thorough': 2400}

ROUTES = ['uri', 'fields', 'fields-reversed', 'fields-rotated', 'query', 'copy', 'repr']
def cases(tier):
    from . import c13
    # a string and a Sid object that compare equal are different arguments of the cached constructor chain: the string form must keep denoting its own Sid (harness of C13)
    return [('rebuild', T, r) for T in C.spec_templates() for r in ROUTES] + c13.client_cases()

def assume_natural(it, st, T, vals):
    spec = C.spec_templates(); segs = [v for _, v in vals]
    for T2 in spec:
        if T2 == T: break
        if len(spec[T2]) != len(vals): continue
        conds = C.accepts(st, T2, segs)
        if any(c is False for c in conds): continue
        zs = [c.z for c in conds if c is not True]
        st.assume(z3.Not(z3.And(*zs)) if zs else z3.BoolVal(False))

URLSAFE = '[A-Za-z0-9_.*>,\\-]+'
import re as _re
NOT_URLSAFE = ''.join(chr(i) for i in range(128) if not _re.fullmatch(URLSAFE, chr(i)))     # recorded structurally as exclusions of the leaves
def run(it, st, case):
    if case[0] == 'client':
        from . import c13
        return c13.run_client(it, st, *case[1:])
    _, T, route = case
    x, vals = C.mk_typed(it, st, T)
    restrict_reserved(st, vals)
    assume_natural(it, st, T, vals)
    st.inputs['type'] = T; st.inputs['values'] = [v for _, v in vals]
    if route == 'query':
        zre = pattern_re(URLSAFE)[0]
        for _, v in vals:
            c = st.in_re(v, zre)
            if c is False: st.assume(z3.BoolVal(False))
            elif c is not True: st.assume(c.z)
            for a in st.norm(v).atoms:
                if isinstance(a, Var): st.excl.setdefault(a.name, set()).update(NOT_URLSAFE); st.nonempty.add(a.name)
    if not st.feasible(): return 'ok'
    Sid = C.sid_class(it); name = f'C02:rebuild-from-{route}'
    try:
        if route == 'uri': y = it.call(Sid, [it.getattr(x, 'uri')], {})
        elif route.startswith('fields'):
            f = it.getattr(x, 'fields')
            items = list(f.items)
            if route == 'fields-reversed': items = items[::-1]
            if route == 'fields-rotated': items = items[len(items) // 2:] + items[:len(items) // 2]
            y = it.call(Sid, [], {'fields': PDict(items)})
        elif route == 'query':
            q = it.call(it.getattr(x, 'as_query'), [], {}); st.observed_q = q
            y = it.call(Sid, [], {'query': q})
        elif route == 'copy': y = it.call(it.getattr(x, 'copy'), [], {})
        elif route == 'repr':
            r = it.call(V.BUILTINS['repr'], [x], {})
            st.oblige(f'{name}:repr-is-Sid(uri)', it.py_eq(r, it.concat(["Sid('", it.getattr(x, 'uri'), "')"])), ('C02',))
            st.observed = {'repr': r}
            return 'ok'
    except Raised as e:
        st.oblige(f'{name}:raises-nothing', False, ('C02',), info={'exception': V.exc_name(e), 'args': repr(e.exc.attrs.get('args'))[:150]})
        st.observed = {'raises': V.exc_name(e)}; return 'ok'
    st.oblige(f'{name}:raises-nothing', True, ('C02',))
    st.observed = obs_view(y) if isinstance(y, PObj) else {'result': repr(y)}
    st.oblige(f'{name}:same-type-fields-and-canonical-string', view_equal(it, y, T, vals), ('C02',), info={'got': repr(C.view(y))[:300] if isinstance(y, PObj) else repr(y)})
    if isinstance(y, PObj):
        st.oblige(f'{name}:result-equals-the-sid', it.py_eq(y, x), ('C02', 'C14'))
    return 'ok'

# ------------------------------------------------------------------ native side
def _do(route, x):
    Sid = C.native()['Sid']
    if route == 'uri': return Sid(x.uri)
    if route.startswith('fields'):
        items = list(x.fields.items())
        if route == 'fields-reversed': items = items[::-1]
        if route == 'fields-rotated': items = items[len(items) // 2:] + items[:len(items) // 2]
        return Sid(fields=dict(items))
    if route == 'query': return Sid(query=x.as_query())
    if route == 'copy': return x.copy()
def crosscheck(case, conc, exp):
    if case[0] == 'client': return {'status': 'agree', 'note': 'history case: replayed in a fresh process when refuted'}
    _, T, route = case
    try:
        x = native_sid(conc['type'], conc['values'])
        got = {'repr': repr(x)} if route == 'repr' else nview(_do(route, x))
    except BaseException as e: got = {'raises': type(e).__name__}
    if got != exp: return {'status': 'diverged', 'input': conc, 'cpython': got, 'engine': exp}
    return {'status': 'agree'}
def replay(case, ob, inputs):
    if case[0] == 'client':
        from . import c13
        return c13.replay(case, ob, inputs)
    _, T, route = case
    values = inputs['values']; keys = C.keys_of(T)
    x = native_sid(T, values); want = (T, list(zip(keys, values)), '/'.join(values))
    if route == 'repr':
        ok = repr(x) == "Sid('" + x.uri + "')"
        return {'confirmed': not ok, 'call': f'repr of {want!r}', 'observed': repr(x), 'expected': "Sid('" + x.uri + "')"}
    r = C.call_native(_do, route, x)
    ok = r[0] == 'ret' and C.native_view(r[1]) == want and r[1] == x
    return {'confirmed': not ok, 'call': f'x = typed Sid {want!r}; rebuild via {route}', 'observed': repr(C.native_view(r[1]) if r[0] == 'ret' else r)[:300], 'expected': repr(want)[:300]}
