"""
C05 -- Sid -> path -> Sid is the identity in every path configuration.

Functions under contract (real source, inlined): sid.PathSid.path (through the real lru_cache closure), fs_resolver.dict_to_path,
  fs_resolver.path_to_dict (through lru_kw_cache), sid_factory.sid_factory / path_to_sid, sid_resolver.dict_to_sid, utils.get_key.

requires  typed(x) of a template T that has a path template in configuration c; x concrete (no search symbol in its string);
          A-path-norm: every field value is non-empty and is not '.' (pathlib.Path normalises an empty or '.' component away;
          that class is the recorded finding C05-pathnorm, replayed natively on every run)
ensures   p = x.path(c) is not None, raises nothing;  Sid(path=p, config=c) has view == view(x)   [type, fields in template order, string]
          path is a function of (type, fields, c): a second call returns an equal path
          str(x.path(c1)) and str(x.path(c2)) differ only by the configured root prefix
          T without path template / untyped x: path(c) is None, nothing raises
Injectivity (two different Sids never map to the same path) is the corollary "a function with a left inverse is injective" of the
round-trip clause, which is proved for every T with a path template.
Lemmas (discharged once per run): for every multi-group file-name chunk of the path templates, two decompositions of the same
segment agree on every group -- so the groups the regex engine extracts are the values that were formatted.
"""
from __future__ import annotations
import z3, time
from pyvc.sstr import SStr, S, SBool, Var, simp, zb, OutsideSubset, Undecided, template_re, solve, pattern_re, finite_words, model_ok
from pyvc import interp as V
from pyvc.interp import PDict, PObj, Raised, Lazy, interleave
from pyvc import world as W
from . import common as C
from .c03 import obs_view, native_sid, nview, view_equal

PROPERTY = 'C05'
FUNCTIONS = {'spil/sid/sid.py': ['PathSid.path', 'BaseSid.__new__'], 'spil/sid/pathops/fs_resolver.py': ['dict_to_path', 'path_to_dict'],
             'spil/sid/core/sid_factory.py': ['sid_factory', 'path_to_sid'], 'spil/sid/core/sid_resolver.py': ['dict_to_sid'], 'spil/util/utils.py': ['get_key'],
             'spil/util/caching.py': ['lru_cache.wrapper', 'lru_kw_cache.wrapper (real closures)']}
TRUSTED = ['resolva methods + match_to_dict interpreted from source; re.search/groupdict modelled',
           'pathlib.Path(str) / str(Path): identity on normalised posix strings (A-path-norm)',
           'pathconfig.get_path_config: returns the configuration object of the snapshot (module import outside the subset)']
ASSUMPTIONS = ['A-path-norm: field values non-empty and not "." (recorded finding C05-pathnorm for the excluded class)',
               'x concrete: no search symbol (* , > < **) in its string']
EXPLANATION = 'every sid template x every path configuration, field values symbolic under their patterns (mapped values, "_"-containing names, node / no-node cache files included)'
BUDGET_S = {'quick': 1500, 'thorough': 3000}

def snap(): return W.take_snapshot()
def configs(): return list(snap()['pathconf'])
def path_types(c): return list(snap()['resolvers'][snap()['pathconf'][c]['name']]['regex'])

def cases(tier):
    cs = []
    for c in configs():
        for T in C.spec_templates(): cs.append(('roundtrip' if T in path_types(c) else 'nopath', T, c))
    cs.append(('untyped',))
    for c in configs(): cs.append(('config', c))
    for ci, (ch, where) in enumerate(multi_chunks()):
        for k, x in enumerate(ch.items):
            if x[0] != 'lit': cs.append(('lemma', ci, k))
    for T in C.spec_templates():
        if all(T in path_types(c) for c in configs()) and len(configs()) >= 2: cs.append(('roots', T))
    return cs

def assume_concrete(it, st, vals):
    for _, v in vals:
        z = st.norm(v).z()
        for a in st.norm(v).atoms:
            if isinstance(a, Var):
                for ch in '*,><':
                    if ch not in st.excl.get(a.name, ()): st.excl.setdefault(a.name, set()).add(ch)
                st.nonempty.add(a.name)
        st.assume(z != z3.StringVal('')); st.assume(z != z3.StringVal('.'))      # A-path-norm: the complement is the recorded finding C05-pathnorm

def run(it, st, case):
    kind = case[0]
    if kind == 'lemma': return run_lemma(it, st, case[1], case[2])
    if kind == 'config': return run_config(it, st, case[1])
    if kind == 'untyped':
        Sid = C.sid_class(it); x = PObj(Sid); s = SStr([st.fresh('u')]); x.attrs.update({'_string': s, '_type': '', '_fields': PDict()})
        st.inputs['string'] = s
        for c in configs() + [None]:
            try: p = it.call(it.getattr(x, 'path'), [c] if c else [], {})
            except Raised as e: st.oblige('C05:PathSid.path:untyped-sid-path-is-None-raises-nothing', False, ('C05',), info={'exception': V.exc_name(e)}); return 'ok'
            st.oblige('C05:PathSid.path:untyped-sid-path-is-None-raises-nothing', p is None, ('C05',))
        st.observed = {'path': None}
        return 'ok'
    T = case[1]
    x, vals = C.mk_typed(it, st, T)
    assume_concrete(it, st, vals)
    if not st.feasible(): return 'ok'
    st.inputs['type'] = T; st.inputs['values'] = [v for _, v in vals]
    if kind == 'nopath':
        c = case[2]; st.inputs['config'] = c
        try: p = it.call(it.getattr(x, 'path'), [c], {})
        except Raised as e: st.oblige('C05:PathSid.path:type-without-path-template-gives-None', False, ('C05',), info={'exception': V.exc_name(e)}); st.observed = {'raises': V.exc_name(e)}; return 'ok'
        st.oblige('C05:PathSid.path:type-without-path-template-gives-None', p is None, ('C05',), info={'path': repr(p)})
        st.observed = {'path': None if p is None else it.to_str(p)}
        return 'ok'
    if kind == 'roots':
        ps = []
        for c in configs():
            try: p = it.call(it.getattr(x, 'path'), [], {'config': c})
            except Raised as e: st.oblige('C05:PathSid.path:raises-nothing', False, ('C05',), info={'exception': V.exc_name(e), 'config': c}); return 'ok'
            if p is None: st.oblige('C05:PathSid.path:typed-sid-with-path-template-has-a-path', False, ('C05',)); return 'ok'
            ps.append(st.norm(S(it.to_str(p))))
        roots = [root_of(c) for c in configs()]
        ok = True; rests = []
        for p, r in zip(ps, roots):
            if not (p.atoms and isinstance(p.atoms[0], str) and p.atoms[0].startswith(r)): ok = False; break
            rests.append(SStr((p.atoms[0][len(r):],) + p.atoms[1:]))
        st.oblige('C05:PathSid.path:configurations-differ-only-by-the-root', ok and all(it.py_eq(simp(rests[0]), simp(r)) is True for r in rests[1:]), ('C05',), info={'roots': roots})
        st.observed = {'paths': [simp(p) for p in ps]}
        return 'ok'
    c = case[2]; st.inputs['config'] = c
    name = 'C05:round-trip'
    try:
        p = it.call(it.getattr(x, 'path'), [c], {})
        p2 = it.call(it.getattr(x, 'path'), [], {'config': c})
    except Raised as e:
        st.oblige(f'{name}:path-raises-nothing', False, ('C05',), info={'exception': V.exc_name(e), 'args': repr(e.exc.attrs.get('args'))[:200]}); st.observed = {'raises': V.exc_name(e)}; return 'ok'
    if p is None or p2 is None:
        st.oblige(f'{name}:typed-sid-with-path-template-has-a-path', False, ('C05',)); st.observed = {'path': None}; return 'ok'
    st.oblige(f'{name}:typed-sid-with-path-template-has-a-path', True, ('C05',))
    st.oblige(f'{name}:path-is-a-function-of-type-fields-config', it.py_eq(it.to_str(p), it.to_str(p2)), ('C05', 'C13'))
    pn = st.norm(S(it.to_str(p)))
    st.oblige(f'{name}:path-lies-under-the-configured-root', bool(pn.atoms) and isinstance(pn.atoms[0], str) and pn.atoms[0].startswith(root_of(c).rstrip('/')), ('C05',), info={'root': root_of(c)})
    Sid = C.sid_class(it)
    try: y = it.call(Sid, [], {'path': p, 'config': c})
    except Raised as e:
        st.oblige(f'{name}:Sid(path)-raises-nothing', False, ('C05', 'C06'), info={'exception': V.exc_name(e), 'args': repr(e.exc.attrs.get('args'))[:200]}); st.observed = {'raises': V.exc_name(e)}; return 'ok'
    st.observed = dict(obs_view(y), path=it.to_str(p)) if isinstance(y, PObj) else {'result': repr(y)}
    st.oblige(f'{name}:Sid(path=sid.path(c))-has-the-view-of-the-sid', view_equal(it, y, T, vals), ('C05',), info={'got': repr(C.view(y))[:300] if isinstance(y, PObj) else repr(y)})
    return 'ok'

def root_of(c):
    """the configured root of path configuration c: the literal prefix common to the path templates of c's own configuration module"""
    fm = snap()['pathconf'][c].get('path_templates') or snap()['resolvers'][snap()['pathconf'][c]['name']]['formats']
    vals = list(fm.values()); pre = vals[0]
    for v in vals[1:]:
        i = 0
        while i < min(len(pre), len(v)) and pre[i] == v[i]: i += 1
        pre = pre[:i]
    return pre[:pre.index('{')] if '{' in pre else pre

def run_config(it, st, c):
    """the resolver that the library uses for configuration c holds the path templates of c's configuration module"""
    st.inputs['config'] = c
    pc = snap()['pathconf'][c]; r = snap()['resolvers'].get(pc['name'])
    ok = r is not None and pc.get('path_templates') is not None and dict(r['patterns']) == dict(pc['path_templates']) and list(r['patterns']) == list(pc['path_templates'])
    st.oblige('C05:pathconfig.PathConfig:resolver-of-a-configuration-holds-its-own-templates', ok, ('C05', 'C13'), info={'config': c, 'resolver_id': pc['name']})
    others = [c2 for c2 in configs() if c2 != c and snap()['pathconf'][c2]['name'] == pc['name']]
    st.oblige('C05:pathconfig.PathConfig:configurations-do-not-share-a-resolver', not others, ('C05', 'C13'), info={'config': c, 'shares_with': others})
    st.observed = {'config': c}
    return 'ok'

# ------------------------------------------------------------------ lemmas: per-chunk decomposition uniqueness
def multi_chunks():
    seen = {}
    for rid, d in snap()['resolvers'].items():
        if rid == 'sid': continue
        for label, pat in d['regex'].items():
            T = template_re(pat)
            for nseg, chunks in T.variants.items():
                for ch in chunks:
                    groups = [x for x in ch.items if x[0] != 'lit']
                    if len(groups) < 2: continue
                    key = tuple((x[0], x[1] if x[0] == 'lit' else x[2].sexpr()) for x in ch.items)
                    seen.setdefault(key, (ch, f'{rid}:{label}'))
    return list(seen.values())

def item_re(x):
    return z3.Re(z3.StringVal(x[1])) if x[0] == 'lit' else x[2]
def run_lemma(it, st, ci, k):
    """left-to-right determinism of the decomposition of a multi-group chunk at its k-th item:
       two decompositions that agree before item k also agree on item k.
       g in L_k, g.d in L_k, d != '', d.H in Rest_k, H in Rest_k   is unsatisfiable   (Rest_k = language of the items after k)"""
    ch, where = multi_chunks()[ci]
    items = ch.items
    text = ''.join(x[1] if x[0] == 'lit' else '{' + (x[1] or '?') + '}' for x in items)
    Lk = item_re(items[k]); rest = items[k + 1:]
    g, d, H = z3.String('g'), z3.String('d'), z3.String('H')
    cs = [z3.InRe(g, Lk), z3.InRe(z3.Concat(g, d), Lk), d != z3.StringVal('')]
    if rest:
        R = z3.Concat(*[item_re(x) for x in rest]) if len(rest) > 1 else item_re(rest[0])
        cs += [z3.InRe(z3.Concat(d, H), R), z3.InRe(H, R)]
    else:
        cs += [z3.BoolVal(False)]      # last item: both decompositions end at the end of the segment, so d == ''
    t0 = time.time()
    name = f'C05:lemma:chunk-decomposition-is-deterministic:{text}:item{k}'
    ob = {'name': name, 'props': ['C05', 'C06'], 'info': {'where': where, 'item': items[k][1] or 'wildcard'}}
    try:
        r = solve(cs, want_model=True, budget_s=90, label='chunk-determinism')
        if r[0] == 'unsat': ob.update(status='discharged', backend=r[2])
        elif model_ok(r[1], cs):
            ob.update(status='refuted', model=r[1]); st.inputs.update({'lemma': text, 'item': k, 'g': SStr([Var('g')]), 'd': SStr([Var('d')]), 'H': SStr([Var('H')])})
        else: ob.update(status='undecided', why='solver returned an invalid model')
    except Undecided as e: ob.update(status='undecided', why=str(e))
    ob['t'] = round(time.time() - t0, 3)
    st.obligations.append(ob)
    return 'ok'

# ------------------------------------------------------------------ native side
def crosscheck(case, conc, exp):
    kind = case[0]
    if kind in ('lemma', 'config'): return {'status': 'agree', 'note': 'no program outcome'}
    Sid = C.native()['Sid']
    try:
        if kind == 'untyped':
            x = native_sid('', [], conc['string']); got = {'path': x.path()}
        elif kind == 'nopath':
            x = native_sid(conc['type'], conc['values']); p = x.path(conc['config']); got = {'path': None if p is None else str(p)}
        elif kind == 'roots':
            x = native_sid(conc['type'], conc['values']); got = {'paths': [str(x.path(config=c)) for c in configs()]}
        else:
            x = native_sid(conc['type'], conc['values']); p = x.path(conc['config'])
            if p is None: got = {'path': None}
            else: got = dict(nview(Sid(path=p, config=conc['config'])), path=str(p))
    except BaseException as e: got = {'raises': type(e).__name__}
    if got != exp: return {'status': 'diverged', 'input': conc, 'cpython': got, 'engine': exp}
    return {'status': 'agree'}

def replay(case, ob, inputs):
    if case is not None and case[0] == 'config':
        import subprocess, sys, json as _j
        prog = ("import io,contextlib\nwith contextlib.redirect_stdout(io.StringIO()):\n    import spil\n    from spil import Sid\n"
                "x = Sid('hamlet/a/char/ophelia/model/v001/w/ma'); import json\nprint(json.dumps([str(x.path(c)) for c in %r]))" % (configs(),))
        out = subprocess.run([sys.executable, '-c', prog], capture_output=True, text=True, cwd=W.REPO).stdout.strip().split('\n')[-1]
        try: ps = _j.loads(out); ok = all(p.startswith(root_of(c).rstrip('/')) for p, c in zip(ps, configs()))
        except Exception: ps = out; ok = False
        return {'confirmed': not ok, 'call': "Sid('hamlet/a/char/ophelia/model/v001/w/ma').path(c) for every configuration, fresh process", 'observed': repr(ps)[:400], 'expected': 'each path under its configured root ' + repr([root_of(c) for c in configs()])}
    if case is None or case[0] == 'lemma':
        import re as _re
        return {'confirmed': False, 'call': 'lemma ' + str(inputs.get('lemma')), 'observed': repr({k: inputs.get(k) for k in ('g', 'd', 'H')}), 'expected': 'no two decompositions of one segment'}
    kind = case[0]; Sid = C.native()['Sid']
    C.clear_native_caches()
    if kind == 'untyped':
        x = native_sid('', [], inputs['string']); r = C.call_native(x.path)
        return {'confirmed': not (r[0] == 'ret' and r[1] is None), 'call': f'untyped Sid {inputs["string"]!r}.path()', 'observed': repr(r), 'expected': 'None'}
    T, values = inputs['type'], inputs['values']; keys = C.keys_of(T)
    x = native_sid(T, values); want = (T, list(zip(keys, values)), '/'.join(values))
    if kind == 'nopath':
        r = C.call_native(x.path, inputs['config'])
        return {'confirmed': not (r[0] == 'ret' and r[1] is None), 'call': f'{want!r}.path({inputs["config"]!r})', 'observed': repr(r)[:200], 'expected': 'None'}
    if kind == 'roots':
        r = C.call_native(lambda: [str(x.path(config=c)) for c in configs()])
        ok = r[0] == 'ret' and len({p[len(root_of(c)):] for p, c in zip(r[1], configs())}) == 1 and all(p.startswith(root_of(c)) for p, c in zip(r[1], configs()))
        return {'confirmed': not ok, 'call': f'{want!r}.path(c) for every configuration', 'observed': repr(r)[:400], 'expected': 'equal up to the configured root'}
    c = inputs['config']
    r = C.call_native(lambda: (x.path(c), x.path(config=c)))
    if r[0] != 'ret' or r[1][0] is None or r[1][0] != r[1][1]:
        return {'confirmed': True, 'call': f'{want!r}.path({c!r})', 'observed': repr(r)[:300], 'expected': 'a path, the same for positional and keyword config'}
    y = C.call_native(lambda: Sid(path=r[1][0], config=c))
    ok = y[0] == 'ret' and C.native_view(y[1]) == want
    return {'confirmed': not ok, 'call': f'Sid(path={str(r[1][0])!r}, config={c!r})', 'observed': repr(C.native_view(y[1]) if y[0] == 'ret' else y)[:300], 'expected': repr(want)[:300]}

def reproduce_known(entry):
    """native replay of the recorded finding C05-pathnorm"""
    Sid = C.native()['Sid']
    w = entry.get('native_witness')
    try:
        x = Sid(w['sid']); p = x.path(w.get('config'))
        back = Sid(path=p, config=w.get('config'))
        return bool(x) and back != x
    except Exception: return True
def in_known_class(entry, inputs):
    """C05-pathnorm: some field value of the Sid is '' or '.'"""
    return isinstance(inputs, dict) and any(v in ('', '.') for v in (inputs.get('values') or []))
