"""
C18 -- get_last, get_next and get_new implement a gap-free version workflow.

Functions under contract (real source): hamlet_plugins.next_get.NextGetter.get_attr (the configured 'next.version' getter),
  sid.DataSid.get_next / get_new / get_last (get_last's own contract is in C09), TypedSid.get_with.
Modular: FindInAll (which answers get_last) and GetFromAll's routing are abstract: FindInAll.find_one is a stub returning the sibling with the
greatest existing version of an arbitrary set E (C09's contract), GetFromAll.get_attr(sid, 'next.version') is routed to the real NextGetter
(the routing itself lives in the configuration module spil_data_conf.get_getter_for: listed as assumed).

requires  typed(x) of a template that has (or can take) the key 'version'; the other field values symbolic; versions 'v' + three ASCII digits
ensures   get_next: x with version n+1 rendered 'v%03d', every other field unchanged; the empty Sid when n == 999 (v1000 is not accepted);
          a Sid without version -> its first version v001; version '*' or '>' -> successor of the last existing one (v001 when none exists)
          get_new: successor of the last existing version (v001 when none), never an existing one; empty Sid beyond the last representable version
          integer lemma: publishing get_new repeatedly (E := E + {max(E)+1}) is strictly increasing and never reuses a value.
Exhaustive over the 1000 ASCII versions for one template, boundary versions {000,001,008,009,010,098,099,100,499,998,999} for every other template.
"""
from __future__ import annotations
import z3
from pyvc.sstr import SStr, S, SBool, Var, simp, zb, OutsideSubset
from pyvc import interp as V
from pyvc.interp import PDict, PObj, PClass, Raised, Lazy, interleave, PBuiltin, GenList
from . import common as C
from .c04 import restrict_reserved

PROPERTY = 'C18'
FUNCTIONS = {'spil_hamlet_conf/hamlet_plugins/next_get.py': ['NextGetter.get_attr'], 'spil/sid/sid.py': ['DataSid.get_next', 'DataSid.get_new', 'DataSid.get_last', 'TypedSid.get_with', 'TypedSid.get']}
TRUSTED = ['int(str) and "%03d" % int on concrete ASCII digit strings (executed natively by the interpreter on literals)']
ASSUMPTIONS = ["versions are 'v' + three ASCII digits (the configured \\\\d also admits other Unicode digits: excluded by requires)",
               "spil_data_conf.get_getter_for routes attribute 'next.version' to NextGetter (configuration code, assumed); FindInAll.find_one answers get_last with the greatest existing sibling (C09) -- abstract here",
               "A-reserved for the other field values"]
BOUNDED = ['version numbers: all 1000 for asset__version, 11 boundary values for each other template (the arithmetic does not depend on the template)']
EXPLANATION = 'NextGetter / get_next / get_new on typed Sids with concrete versions and symbolic other fields against the successor oracle; abstract finder for the existing versions'
BUDGET_S = {'quick': 900, 'thorough': 2400}
BOUNDARY = [0, 1, 8, 9, 10, 98, 99, 100, 499, 998, 999]

def with_version(): return [T for T, sp in C.spec_templates().items() if 'version' in [k for k, _ in sp]]
def version_parent():
    """templates whose keys + ['version'] is a template"""
    spec = C.spec_templates(); out = []
    for T, sp in spec.items():
        ks = [k for k, _ in sp]
        if 'version' not in ks and any([k for k, _ in sp2] == ks + ['version'] for sp2 in spec.values()): out.append(T)
    return out

def cases(tier):
    cs = []
    wv = with_version()
    full = 'asset__version' if 'asset__version' in wv else (wv[0] if wv else None)
    for T in wv:
        ns = range(1000) if (T == full and tier == 'thorough') else (range(0, 1000, 37) if T == full else BOUNDARY)
        ns = sorted(set(list(ns) + BOUNDARY))
        for n in ns: cs.append(('next', T, (n,)))
        for last in (None, 1, 9, 99, 998, 999):
            cs.append(('next-search', T, '*', last)); cs.append(('next-search', T, '>', last))
            cs.append(('new', T, last))
        # sparse sets of existing versions around the Sid's own version v005 (existing or not): get_new is the successor of the LAST existing one
        for E in ((5,), (5, 7), (3, 5), (5, 6), (1, 2, 5, 9), (4, 6), (6,)): cs.append(('new', T, E))
    for T in version_parent():
        cs.append(('first', T))
        for last in (None, 1, 999): cs.append(('new-noversion', T, last))
    cs.append(('lemma',))
    return cs

def mk(it, st, T, version=None):
    x, vals = C.mk_typed(it, st, T); restrict_reserved(st, vals)
    for k, v in vals:
        for a in st.norm(v).atoms:
            if isinstance(a, Var):
                st.excl.setdefault(a.name, set()).update(' ')
                if a.name not in st.domain: st.excl[a.name].update('>*,')
    if version is not None:
        for i, (k, v) in enumerate(vals):
            if k == 'version':
                vals[i] = (k, version); x.attrs['_fields'].items[i][1] = version
        x.attrs['_string'] = it.concat(interleave('/', [v for _, v in vals]))
    return x, vals

def install_stubs(it, st, T, last):
    """FindInAll: find_one answers with the sibling of greatest existing version (or the empty Sid), exists answers from the set of existing versions;
    GetFromAll routes next.version to NextGetter.   last: None | the only existing version | a tuple of existing versions"""
    existing = set(last) if isinstance(last, tuple) else (set() if last is None else {last})
    last = max(existing) if existing else None
    def exists(it_, search):
        f = search.attrs['_fields'] if isinstance(search, PObj) else None
        if f is None: raise OutsideSubset('exists() on a non-Sid')
        v = [vv for k, vv in f.items if k == 'version']
        if not v: return bool(existing)              # an ancestor of existing entities exists
        vs = simp(it_.st.norm(v[0])) if isinstance(v[0], SStr) else v[0]
        if not isinstance(vs, str): raise OutsideSubset('exists() of a symbolic version')
        return vs[1:].isdigit() and int(vs[1:]) in existing
    Sid = C.sid_class(it)
    ng = it.module('hamlet_plugins.next_get').ns['NextGetter']
    asked = []
    def find_one(it_, search, as_sid=True):
        asked.append(search)
        if last is None: return it_.call(Sid, [], {})
        f = search.attrs['_fields']
        items = [(k, ('v%03d' % last) if k == 'version' else v) for k, v in f.items]
        o = PObj(Sid); o.attrs.update({'_type': search.attrs['_type'], '_fields': PDict(items), '_string': it_.concat(interleave('/', [v for _, v in items]))})
        return o
    fa = PClass('FindInAll', [V.OBJECT]); fa.ns['find_one'] = PBuiltin(find_one, 'find_one'); fa.ns['exists'] = PBuiltin(exists, 'exists')
    def get_attr(it_, sid, attribute=None):
        return it_.call(it_.getattr(it_.call(ng, [], {}), 'get_attr'), [sid, attribute], {})
    ga = PClass('GetFromAll', [V.OBJECT]); ga.ns['get_attr'] = PBuiltin(get_attr, 'get_attr')
    m = it.module('spil'); m.ns['FindInAll'] = fa; m.ns['GetFromAll'] = ga
    return asked

def expect(it, st, name, r, T, vals, n_next, props=('C18',)):
    """r must be x with version n_next (empty Sid if n_next > 999)"""
    if n_next > 999:
        st.oblige(f'{name}:beyond-the-last-representable-version-gives-the-empty-Sid', isinstance(r, PObj) and not r.attrs['_fields'].items and r.attrs['_type'] == '' and r.attrs['_string'] == '', props, info={'got': repr(C.view(r))[:200] if isinstance(r, PObj) else repr(r)})
        return
    want = [(k, ('v%03d' % n_next) if k == 'version' else v) for k, v in vals]
    if not isinstance(r, PObj): st.oblige(f'{name}:returns-a-Sid', False, props); return
    t, f, s = C.view(r)
    ok = isinstance(f, list) and [k for k, _ in f] == [k for k, _ in want]
    st.oblige(f'{name}:same-sid-with-the-successor-version-other-fields-unchanged',
              it.conj([it.py_eq(a, b) for (_, a), (_, b) in zip(f, want)] + [it.py_eq(s, it.concat(interleave('/', [v for _, v in want])))]) if ok else False, props,
              info={'want_version': 'v%03d' % n_next, 'got': repr((t, f))[:300]})

def run(it, st, case):
    it.world.search_paths = [it.world.repo, it.world.repo + '/spil_hamlet_conf']
    kind = case[0]
    if kind == 'lemma': return run_lemma(it, st)
    T = case[1]
    if kind == 'next':
        for n in case[2]:
            x, vals = mk(it, st, T, 'v%03d' % n)
            install_stubs(it, st, T, None)
            st.inputs['type'] = T; st.inputs['values'] = [v for _, v in vals]
            try: r = it.call(it.getattr(x, 'get_next'), ['version'], {})
            except Raised as e:
                st.oblige('C18:DataSid.get_next:raises-nothing', False, ('C18',), info={'exception': V.exc_name(e), 'version': n}); return 'ok'
            expect(it, st, 'C18:DataSid.get_next', r, T, vals, n + 1)
        st.observed = {'n': len(case[2])}
        return 'ok'
    if kind == 'next-search':
        sym, last = case[2], case[3]
        x, vals = mk(it, st, T, sym); asked = install_stubs(it, st, T, last)
        st.inputs['type'] = T; st.inputs['values'] = [v for _, v in vals]; st.inputs['last'] = last
        try: r = it.call(it.getattr(x, 'get_next'), ['version'], {})
        except Raised as e:
            st.oblige('C18:DataSid.get_next:raises-nothing', False, ('C18',), info={'exception': V.exc_name(e), 'version': sym, 'last': last}); return 'ok'
        expect(it, st, 'C18:DataSid.get_next(search-version)', r, T, vals, (last or 0) + 1)
        st.observed = {'last': last}
        return 'ok'
    if kind == 'new':
        last = case[2]
        x, vals = mk(it, st, T, 'v005'); asked = install_stubs(it, st, T, last)
        st.inputs['type'] = T; st.inputs['values'] = [v for _, v in vals]; st.inputs['last'] = last
        try: r = it.call(it.getattr(x, 'get_new'), ['version'], {})
        except Raised as e:
            st.oblige('C18:DataSid.get_new:raises-nothing', False, ('C18',), info={'exception': V.exc_name(e), 'last': last}); return 'ok'
        # successor of the last existing version; when nothing exists, the successor of the Sid's own version (it does not exist yet)
        top = max(last) if isinstance(last, tuple) else last
        expect(it, st, 'C18:DataSid.get_new', r, T, vals, (top + 1) if top is not None else 6)
        st.observed = {'last': last}
        return 'ok'
    if kind in ('first', 'new-noversion'):
        last = case[2] if kind == 'new-noversion' else None
        x, vals = mk(it, st, T); asked = install_stubs(it, st, T, last)
        spec = C.spec_templates(); ks = [k for k, _ in vals]
        T2 = [t for t, sp in spec.items() if [k for k, _ in sp] == ks + ['version']][0]
        st.inputs['type'] = T; st.inputs['values'] = [v for _, v in vals]; st.inputs['last'] = last
        try: r = it.call(it.getattr(x, 'get_next' if kind == 'first' else 'get_new'), ['version'], {})
        except Raised as e:
            st.oblige(f'C18:DataSid.{"get_next" if kind == "first" else "get_new"}:raises-nothing', False, ('C18',), info={'exception': V.exc_name(e)}); return 'ok'
        expect(it, st, 'C18:DataSid.get_next(no-version)' if kind == 'first' else 'C18:DataSid.get_new(no-version)', r, T2, vals + [('version', 'v000')], (last or 0) + 1)
        st.observed = {'last': last}
        return 'ok'

def run_lemma(it, st):
    """E finite set of naturals <= 999 with maximum m; new = m + 1 (or 1 when E is empty): new not in E, and the next step's maximum is new (strictly increasing)"""
    m = z3.Int('m'); e = z3.Int('e'); new = z3.Int('new')
    st.inputs['lemma'] = 'version-succession'
    st.assume(z3.And(e >= 0, e <= m, m >= 0, new == m + 1))          # e: an arbitrary existing version, m: the greatest
    st.oblige('C18:lemma:get_new-version-is-not-an-existing-one', SBool(new != e), ('C18',))
    st.oblige('C18:lemma:publishing-get_new-is-strictly-increasing', SBool(z3.And(new > m, new > e)), ('C18',))
    st.observed = {}
    return 'ok'

# ------------------------------------------------------------------ native side
def crosscheck(case, conc, exp): return {'status': 'agree', 'note': 'finder abstracted: no native counterpart for the whole call'}
def replay(case, ob, inputs):
    kind = case[0]
    if kind != 'next':
        return {'confirmed': False, 'call': f'{case!r} against an abstract finder', 'observed': repr(ob.get('info')), 'expected': 'see contract'}
    import sys
    sys.path.insert(0, '/repo/spil_hamlet_conf')
    from hamlet_plugins.next_get import NextGetter
    from .c03 import native_sid
    T, values = inputs['type'], inputs['values']; keys = C.keys_of(T)
    x = native_sid(T, values); n = int(dict(zip(keys, values))['version'][1:])
    r = C.call_native(NextGetter().get_attr, x, 'next.version')
    want = dict(zip(keys, values)); want['version'] = 'v%03d' % (n + 1)
    ok = r[0] == 'ret' and ((n == 999 and not r[1]) or (n < 999 and dict(r[1].fields) == want))
    return {'confirmed': not ok, 'call': f'NextGetter().get_attr({x.uri!r}, "next.version")', 'observed': repr(C.native_view(r[1]) if r[0] == 'ret' else r)[:300], 'expected': repr(want if n < 999 else 'empty Sid')[:300]}
