"""
C10 -- search results obey the algebra of the search syntax.

The result of a Finder is   find(s) = dedup( concat over t in unfold_search(s) of matches(t) )   -- this composition is carried by the contracts of
  Finder.find          (hands do_find exactly unfold_search(s); re-checked here also for searches)                 [real code, below + C08]
  FindByGlob.do_find   (hands the whole list to star_search when no search carries '>')                           [real code, below]
  FindInList.star_search (yields exactly the entries matching one of the typed searches, each once)               [real code, C08]
so a law "find(s) == union of find(s_i)" for every data set holds when the SETS OF TYPED SEARCHES agree.  The five laws are therefore stated as
relational postconditions of the real unfold_search (several calls in one harness, symbolic contents):

  or      set(U(.. a,b ..))      == set(U(.. a ..)) | set(U(.. b ..))
  alias   set(U(../alias))       == union over the alias' members m of set(U(../m))
  **      set(U(head/**[/last])) == union over n >= 0 of { t in U(head + n*'/*' [/last]) : type(t) is a leaf type }
  filter  set(U(s?k=v))          == { overlay(t, k=v) : t in U(s) }     (overlay = C04's decision table; searches the value does not fit are dropped)
  literal set(U(s[i := v]))      == { overlay(t, key_i=v) : t in U(s) } for s with '*' at position i
  results are duplicate free and typed.
and one lemma over the glob contract of C08 (discharged by z3 per length):
  glob(t[k := v], e)  <=>  glob(t, e) and e_k == v        for t_k == '*', v free of '*'
which turns the filter / literal laws on typed searches into "exactly the results whose field k equals v" / "the subset having that value".

The other two Finders are brought under the same per-typed-search contract with their environment abstracted (stubs with fixed answers, enumerated):
  FindInPaths.star_search_simple  with search.path / glob.glob / Sid(path=) abstract: every typed search is answered with the paths of its own type, each path once
                                  (two searches of different types that render to the same glob pattern are both answered)
  FindInAll.find                  with unfold_search / get_finder / each Finder's do_find abstract: duplicate-free union over the typed searches that have a Finder
What is NOT covered: glob.glob itself, real directory trees and the path templates' glob rendering (C11 is not applicable); star_search_framed (file sequences,
needs the optional fileseq package); sorted ('>') searches are C09's.
"""
from __future__ import annotations
import itertools, z3
from pyvc.sstr import SStr, S, SBool, Var, simp, zb, OutsideSubset, pattern_re
from pyvc import interp as V
from pyvc.interp import PDict, PObj, PClass, Raised, Lazy, interleave, PBuiltin
from . import common as C
from .c04 import types_of
from .c07 import values, value_at, is_leaf_type, aliases_for, SYNTAX
from . import c08

PROPERTY = 'C10'
FUNCTIONS = {'spil/sid/read/finders/find_list.py': ['FindInList.star_search'], 'spil/sid/pathops/find_paths.py': ['FindInPaths.star_search_simple'], 'spil/sid/read/finders/find_all.py': ['FindInAll.find'], 'spil/sid/read/tools.py': ['unfold_search', 'apply_unfolders'], 'spil/sid/read/unfolders/extensions.py': ['execute', 'extensions', 'handle_extension'],
             'spil/sid/read/unfolders/or_op.py': ['execute', 'or_op', 'or_on_path', 'or_on_query'], 'spil/sid/read/unfolders/expand.py': ['execute'],
             'spil/sid/core/utils.py': ['expand', 'simple_typing'], 'spil/sid/read/unfolders/typed_narrow.py': ['execute', 'type_narrow'],
             'spil/sid/read/finder.py': ['Finder.find'], 'spil/sid/read/finders/find_glob.py': ['FindByGlob.do_find']}
TRUSTED = ['resolva interpreted from source; re / urllib models']
ASSUMPTIONS = ['FindInList.star_search yields exactly the matching entries, each once (contract discharged in C08); glob2re has the glob language (C08, bounded)',
               'FindInPaths.star_search_simple and FindInAll.find are verified against ABSTRACT callees (glob.glob, Sid(path=), search.path, get_finder, do_find are stubs with enumerated answers); that glob.glob on a real tree returns exactly the matching paths is assumed; star_search_framed is not covered',
               'values inside a shape are concrete-looking (non-empty, free of the search and query syntax characters); free-text names range over [A-Za-z0-9_.-]+',
               "leaf restriction of the '**' law is read on the typed searches (type ends in the basetype's leaf key)"]
BOUNDED = ['FindInPaths / FindInAll harnesses: two / three typed searches, at most two paths per pattern, stub answers enumerated exhaustively', "shapes are enumerated: one ',' list per position, one alias in the last segment, '**' after every proper head and before the last segment, one filter / one literal per position; quick tier: last position (and position 0) only"]
EXPLANATION = 'relational postconditions of the real unfold_search for the five rewrite rules + Finder.find / do_find composition + a z3 lemma over the glob contract'
BUDGET_S = {'quick': 1800, 'thorough': 2400}

def maxlen(): return max(len(v) for v in C.spec_templates().values())

def cases(tier):
    spec = C.spec_templates(); cs = []; thorough = tier == 'thorough'
    for T in spec:
        n = len(spec[T]); small = n <= 5
        pos = list(range(n)) if thorough else ([n - 1] if not small else sorted({0, n - 1}))
        for i in pos:
            if not thorough and n > 5 and spec[T][i][1] == '[^/]*': continue      # two free-text alternatives in a long template: hundreds of typing forks (thorough tier)
            cs.append(('or', T, i))
        if is_leaf_type(T):
            for a in aliases_for(T)[:1 if not thorough else 9]: cs.append(('alias', T, a))
            for i in (range(1, n) if thorough else [2]): cs.append(('tail**', T, i))
            if n >= 3:
                for i in (range(1, n - 1) if thorough else [n - 2]): cs.append(('mid**', T, i))
        for i in (range(n) if thorough else [n - 1]):
            cs.append(('filter', T, i)); cs.append(('literal', T, i))
        if small or thorough or T.endswith('file'): cs.append(('find', T))
    cs.append(('dispatch', 'star')); cs.append(('dispatch', 'sorted')); cs.append(('dispatch', 'empty'))
    for m in range(1, maxlen() + 1): cs.append(('lemma', m))
    cs += paths_cases(tier)
    cs += [('all', fs_) for fs_ in itertools.product(('F1', 'F2', None), repeat=3)]
    # the contracts the composition rests on are re-established by this check itself: FindInList.star_search and Finder.find (harnesses of C08)
    cs += [('c08',) + tuple(c) for c in c08.cases(tier) if c[0] in ('star', 'find')]
    return cs

# ------------------------------------------------------------------ helpers
_SEEN_U = []
def U(it, s):
    """the real unfold_search; result as a list of (type, [(key, value)], string)"""
    r = _U(it, s); _SEEN_U.append(r); return r
def _U(it, s):
    tools = it.module('spil.sid.read.tools')
    r = it.call(tools.ns['unfold_search'], [s], {})
    out = []
    for x in r:
        if not isinstance(x, PObj): raise OutsideSubset('unfold_search result is not a Sid')
        t, f, string = C.view(x)
        t = simp(it.st.norm(t)) if isinstance(t, SStr) else t
        out.append((t, list(f) if isinstance(f, list) else [], string))
    return out
def same(it, a, b):
    return a[0] == b[0] and len(a[1]) == len(b[1]) and all(ka == kb and it.known_eq(va, vb) for (ka, va), (kb, vb) in zip(a[1], b[1]))
def uniq(it, xs):
    out = []
    for x in xs:
        if not any(same(it, x, y) for y in out): out.append(x)
    return out
def show(xs): return repr([(t, [repr(v) for _, v in f]) for t, f, *_ in xs])[:300]
def set_eq(it, st, name, got, want, info=None):
    missing = [w for w in want if not any(same(it, w, g) for g in got)]
    extra = [g for g in got if not any(same(it, g, w) for w in want)]
    i = {'missing': show(missing), 'extra': show(extra)}; i.update(info or {})
    st.oblige(name, not missing and not extra, ('C10',), info=i)
def wf(it, st, name, got):
    ok = all(t and f for t, f, s in got) and all(st.str_free_of(s, '?') for _, _, s in got)
    st.oblige(f'{name}:every-typed-search-is-typed', ok, ('C10',))
    dup = any(same(it, got[a], got[b]) for a in range(len(got)) for b in range(a + 1, len(got)))
    st.oblige(f'{name}:no-duplicates', not dup, ('C10',))
def join(it, segs): return it.concat(interleave('/', list(segs)))

def overlay(it, st, t, k, v):
    """C04's decision table: typed search t with field k replaced by v (k must be a key of t); [] if no template fits"""
    T, items, _ = t
    if not any(kk == k for kk, _ in items): return []
    d = [[kk, (v if kk == k else vv)] for kk, vv in items]
    acc = []
    for T2, its2, cond in types_of(it, st, d):
        if cond is True or (cond is not False and it.st.branch(cond, f'overlay fits {T2}')): acc.append((T2, list(its2)))
    if not acc: return []
    pick = acc[0] if len(acc) == 1 or not any(t2 == T for t2, _ in acc) else [x for x in acc if x[0] == T][0]
    return [(pick[0], list(pick[1]), None)]

# ------------------------------------------------------------------ runs
def run(it, st, case):
    kind = case[0]
    if kind == 'c08': return c08.run(it, st, tuple(case[1:]))
    if kind == 'lemma': return run_lemma(it, st, case[1])
    if kind == 'paths': return run_paths(it, st, case)
    if kind == 'all': return run_all(it, st, case[1])
    if kind == 'dispatch': return run_dispatch(it, st, case[1])
    if kind == 'find': return run_find(it, st, case[1])
    T = case[1]; name = f'C10:unfold_search[{kind}]'
    vs = values(it, st, T); n = len(vs)
    derived = []; got_all = None; del _SEEN_U[:]
    try:
        if kind == 'or':
            i = case[2]; w = value_at(it, st, T, i, f'w{i}')
            text = list(vs); text[i] = it.concat([vs[i], ',', w])
            s = join(it, text); alt2 = list(vs); alt2[i] = w
            st.inputs['search'] = s; st.inputs['derived'] = derived = [join(it, vs), join(it, alt2)]
            got = U(it, s); want = uniq(it, [t for d in derived for t in U(it, d)])
            law = 'a-list-unfolds-to-the-union-of-its-alternatives'
        elif kind == 'alias':
            a = case[2]; members = sorted(set(C.conf('extension_alias')[a]))
            s = join(it, list(vs[:-1]) + [a])
            st.inputs['search'] = s; st.inputs['derived'] = derived = [join(it, list(vs[:-1]) + [m]) for m in members]
            got = U(it, s); want = uniq(it, [t for d in derived for t in U(it, d)])
            law = 'an-alias-unfolds-to-the-union-of-its-members'
        elif kind in ('tail**', 'mid**'):
            i = case[2]; tail = [vs[-1]] if kind == 'mid**' else []
            s = join(it, list(vs[:i]) + ['**'] + tail)
            st.inputs['search'] = s
            derived = [join(it, list(vs[:i]) + ['*'] * m + tail) for m in range(0, maxlen() - i - len(tail) + 1)]
            st.inputs['derived'] = derived
            got = U(it, s); want = uniq(it, [t for d in derived for t in U(it, d) if is_leaf_type(t[0])])
            law = 'double-star-unfolds-to-the-union-of-0..n-star-levels-restricted-to-leaf-types'
        elif kind in ('filter', 'literal'):
            i = case[2]; k = C.keys_of(T)[i]
            w = value_at(it, st, T, i, 'f')
            for a in C.conf('extension_alias'):          # v is a plain value: an alias name as value is the alias law's business
                c = it.py_eq(w, a)
                if c is True: st.assume(z3.BoolVal(False))
                elif c is not False: st.assume(z3.Not(zb(c)))
            if not st.feasible(): return 'ok'
            base = list(vs); base[i] = '*'; s0 = join(it, base)
            if kind == 'filter': s = it.concat([s0, '?', k, '=', w])
            else: lit = list(vs); lit[i] = w; s = join(it, lit)
            st.inputs['search'] = s; st.inputs['derived'] = derived = [s0]; st.inputs['key'] = k; st.inputs['value'] = w
            got = U(it, s); base_ts = U(it, s0); got_all = list(got)
            if kind == 'filter' and any(not any(kk == k for kk, _ in t[1]) for t in base_ts):
                # the law speaks about a key that the searched types HAVE: a searched type without the key (the filter then adds a deeper level) is outside it;
                # the typed searches of the searched types that do have the key are still compared
                got = [g for g in got if len(g[1]) == n]
            want = uniq(it, [o for t in base_ts for o in overlay(it, st, t, C.keys_of(t[0])[i] if kind == 'literal' and len(t[1]) > i else k, w)])
            law = 'a-filter-on-a-key-of-the-searched-types-unfolds-to-the-unfiltered-searches-with-that-field-set' if kind == 'filter' else 'a-literal-in-place-of-a-star-unfolds-to-the-star-searches-with-that-field-set'
    except Raised as e:
        st.oblige(f'{name}:raises-nothing-on-a-well-formed-search', False, ('C10',), info={'exception': V.exc_name(e), 'args': repr(e.exc.attrs.get('args'))[:160]})
        st.observed = {'raises': V.exc_name(e)}; return 'ok'
    st.observed = {'result': [it.concat([t, ':', s_]) for t, _, s_ in (got_all or got)]}
    wf(it, st, name, got_all or got)
    for k_, r_ in enumerate(_SEEN_U[1:]):          # the derived searches' own results are well formed too (typed, no unapplied query, no duplicates)
        wf(it, st, name + '[derived]', r_)
    set_eq(it, st, f'{name}:{law}', got, want)
    return 'ok'

def run_find(it, st, T):
    """Finder.find hands do_find exactly unfold_search(s) when s is a search (a '*' in its last segment)"""
    fm = it.module('spil.sid.read.finder'); Finder = fm.ns['Finder']
    vs = values(it, st, T); text = list(vs); text[-1] = '*'
    s = join(it, text); st.inputs['search'] = s
    calls = []
    def do_find(it_, search_sids=None, as_sid=True, **k): calls.append((list(search_sids), as_sid)); return V.GenList([])
    stub = PClass('StubFinder', [Finder], fm); stub.ns['do_find'] = PBuiltin(do_find, 'do_find')
    name = 'C10:Finder.find'
    try:
        list(it.call(it.getattr(PObj(stub), 'find'), [s], {'as_sid': False}))
        want = U(it, s)
    except Raised as e:
        st.oblige(f'{name}:raises-nothing', False, ('C10',), info={'exception': V.exc_name(e)}); st.observed = {'raises': V.exc_name(e)}; return 'ok'
    got = []
    for x in (calls[0][0] if calls else []):
        t, f, string = C.view(x); got.append((simp(st.norm(t)) if isinstance(t, SStr) else t, list(f) if isinstance(f, list) else [], string))
    st.observed = {'searched': [it.concat([t, ':', s_]) for t, _, s_ in got]}
    st.oblige(f'{name}:do_find-is-called-once-with-the-callers-as_sid', len(calls) == 1 and calls[0][1] is False, ('C10',), info={'calls': len(calls)})
    set_eq(it, st, f'{name}:a-search-is-handed-to-do_find-as-exactly-its-unfolded-typed-searches', got, want)
    return 'ok'

def run_dispatch(it, st, which):
    """FindByGlob.do_find: the whole list goes to star_search in one call (so its per-call duplicate suppression spans all typed searches) unless a '>' is present"""
    fg = it.module('spil.sid.read.finders.find_glob'); FBG = fg.ns['FindByGlob']
    T = next(t for t in C.spec_templates() if is_leaf_type(t))
    x1, v1 = C.mk_concrete(it, T); x2, v2 = C.mk_concrete(it, T)
    x1.attrs['_string'] = '/'.join([v for _, v in v1][:-1] + ['*']); x1.attrs['_fields'] = PDict(v1[:-1] + [(v1[-1][0], '*')])
    if which == 'sorted':
        vv = [v for _, v in v2]; i = C.keys_of(T).index('version') if 'version' in C.keys_of(T) else len(vv) - 1
        vv[i] = '>'; x2.attrs['_string'] = '/'.join(vv); x2.attrs['_fields'] = PDict(list(zip(C.keys_of(T), vv)))
    xs = [] if which == 'empty' else [x1, x2]
    calls = []
    def star(it_, search_sids=None, as_sid=False, do_sort=False, **k): calls.append(('star', list(search_sids), as_sid)); return V.GenList(['r1', 'r2'])
    def sort(it_, search_sids=None, as_sid=True, **k): calls.append(('sorted', list(search_sids), as_sid)); return V.GenList(['r3'])
    stub = PClass('StubGlob', [FBG], fg)
    stub.ns['star_search'] = PBuiltin(star, 'star_search'); stub.ns['sorted_search'] = PBuiltin(sort, 'sorted_search')
    name = 'C10:FindByGlob.do_find'
    st.inputs['which'] = which
    try: got = list(it.call(it.getattr(PObj(stub), 'do_find'), [list(xs)], {'as_sid': False}))
    except Raised as e:
        st.oblige(f'{name}:raises-nothing', False, ('C10',), info={'exception': V.exc_name(e)}); st.observed = {'raises': V.exc_name(e)}; return 'ok'
    st.observed = {'calls': [c[0] for c in calls], 'result': list(got)}
    if which == 'empty':
        st.oblige(f'{name}:no-typed-search-gives-no-result', got == [] and not calls, ('C10',), info={'calls': repr(calls)[:100]})
    else:
        kind = 'star' if which == 'star' else 'sorted'
        ok = len(calls) == 1 and calls[0][0] == kind and len(calls[0][1]) == len(xs) and all(a is b for a, b in zip(calls[0][1], xs)) and calls[0][2] is False
        st.oblige(f'{name}:the-whole-list-of-typed-searches-goes-to-one-{kind}_search-call-and-its-result-is-yielded-unchanged', ok and got == (['r1', 'r2'] if kind == 'star' else ['r3']), ('C10',),
                  info={'calls': repr([(c[0], len(c[1]), c[2]) for c in calls]), 'result': repr(got)})
    return 'ok'


# ------------------------------------------------------------------ FindInPaths.star_search_simple against abstract callees
# Abstract: search.path(config) (a pattern per typed search), glob.glob (a fixed list of paths per pattern), Sid(path=..) (a typed Sid, an untyped one, or SpilException per path).
# Contract: the result is, in scan order and each path once, { R(p) : search in searches, p in G(pattern(search)), R(p) typed with type(R(p)) == type(search) }.
# Two typed searches of DIFFERENT types may render to the same pattern (asset__cache_file / asset__movie_file): both must be answered.
RKINDS = ['A', 'B', 'untyped', 'raises']
def paths_cases(tier):
    cs = []
    for same_pat in (True, False):
        for types in (('A', 'A'), ('A', 'B'), ('B', 'A')):
            for g1 in ((), ('p1',), ('p1', 'p2')):
                for g2 in ([g1] if same_pat else [(), ('p1',), ('p2',), ('p2', 'p1'), ('p3',)]):
                    for r in itertools.product(RKINDS, repeat=2):
                        cs.append(('paths', same_pat, types, g1, tuple(g2), r))
    cs.append(('paths', 'nopath'))
    return cs
def run_paths(it, st, case):
    fp = it.module('spil.sid.pathops.find_paths'); FIP = fp.ns['FindInPaths']
    SpilEx = it.resolve(Lazy('spil.util.exception', 'SpilException'))
    name = 'C10:FindInPaths.star_search_simple'
    Stub = PClass('StubSid', [V.OBJECT])
    def mk(type_, uri, pattern):
        o = PObj(Stub); o.attrs.update({'type': type_, 'uri': uri, '_pattern': pattern})
        o.attrs['path'] = PBuiltin(lambda it_, config=None: pattern, 'path'); return o
    Stub.ns['__str__'] = PBuiltin(lambda it_, self_: self_.attrs['uri'], '__str__')
    Stub.ns['__repr__'] = Stub.ns['__str__']
    Stub.ns['__bool__'] = PBuiltin(lambda it_, self_: bool(self_.attrs['type']), '__bool__')
    if case[1] == 'nopath':
        searches = [mk('A', 'A:s1', None)]; G = {}; R = {}
    else:
        _, same_pat, types, g1, g2, rk = case
        searches = [mk(types[0], f'{types[0]}:s1', '/root/x/*'), mk(types[1], f'{types[1]}:s2', '/root/x/*' if same_pat else '/root/y/*')]
        G = {'/root/x/*': list(g1)}
        if not same_pat: G['/root/y/*'] = list(g2)
        R = {'p1': rk[0], 'p2': rk[1], 'p3': 'B'}
    def glob_(it_, pattern, *a, **k):
        return [f'/root/{p}' for p in G.get(it_.to_str(pattern) if not isinstance(pattern, str) else pattern, [])]
    def sid_(it_, *a, path=None, config=None, **k):
        kind = R[path.rsplit('/', 1)[-1]]
        if kind == 'raises': raise Raised(it_.instantiate(SpilEx, ['not conform'], {}))
        return mk(None if kind == 'untyped' else kind, f'{kind}:{path}', None)
    fp.ns['glob'] = V.PModule('glob'); fp.ns['glob'].ns['glob'] = PBuiltin(glob_, 'glob.glob')
    fp.ns['Sid'] = PBuiltin(sid_, 'Sid')
    finder = PObj(FIP); finder.attrs['config_name'] = 'local'
    cobj = PObj(PClass('Conf', [V.OBJECT])); cobj.attrs['search_path_mapping'] = PDict([]); finder.attrs['conf'] = cobj
    st.inputs['case'] = repr(case)
    try: got = list(it.call(it.getattr(finder, 'star_search_simple'), [list(searches)], {'as_sid': False}))
    except Raised as e:
        st.oblige(f'{name}:raises-nothing', False, ('C10',), info={'exception': V.exc_name(e), 'args': repr(e.exc.attrs.get('args'))[:120]}); st.observed = {'raises': V.exc_name(e)}; return 'ok'
    want = []; seen = []
    for s_ in searches:
        pat = s_.attrs['_pattern']
        for p in ([f'/root/{q}' for q in G.get(pat, [])] if pat else []):
            if p in seen: continue
            kind = R[p.rsplit('/', 1)[-1]]
            if kind in ('A', 'B') and kind == s_.attrs['type']: seen.append(p); want.append(f'{kind}:{p}')
    st.observed = {'found': list(got)}
    st.oblige(f'{name}:every-typed-search-is-answered-with-the-paths-of-its-own-type-each-once-in-scan-order', list(got) == want, ('C10',), info={'got': repr(got)[:200], 'want': repr(want)[:200], 'case': repr(case)})
    return 'ok'

# ------------------------------------------------------------------ FindInAll.find against abstract callees
# Abstract: unfold_search (three typed searches), get_finder (a Finder or None per typed search), each Finder's do_find (answers a list of searches with the
# concatenation of fixed per-search answers, which overlap).  Contract: the result is the duplicate-free union of the answers of every typed search that has a
# Finder; every Finder is asked once, with exactly its searches in order and as_sid=False; a search without Finder is skipped without failing.
ANSWERS = {'t1': ['x', 'y'], 't2': ['y', 'z'], 't3': ['x', 'w']}
def run_all(it, st, assign):
    fa = it.module('spil.sid.read.finders.find_all'); FIA = fa.ns['FindInAll']
    name = 'C10:FindInAll.find'
    Stub = PClass('StubSid', [V.OBJECT]); Stub.ns['__str__'] = PBuiltin(lambda it_, self_: self_.attrs['uri'], '__str__'); Stub.ns['__repr__'] = Stub.ns['__str__']
    ts = []
    for nme in ('t1', 't2', 't3'):
        o = PObj(Stub); o.attrs.update({'uri': nme, 'type': 'T'}); ts.append(o)
    calls = []
    FCls = PClass('StubFinder', [V.OBJECT]); FCls.ns['__str__'] = PBuiltin(lambda it_, self_: self_.attrs['name'], '__str__'); FCls.ns['__repr__'] = FCls.ns['__str__']
    finders = {}
    for fn in ('F1', 'F2'):
        f = PObj(FCls); f.attrs['name'] = fn
        def do_find(it_, search_sids=None, as_sid=True, _fn=fn, **k):
            calls.append((_fn, [x.attrs['uri'] for x in search_sids], as_sid))
            return V.GenList([a for x in search_sids for a in ANSWERS[x.attrs['uri']]])
        f.attrs['do_find'] = PBuiltin(do_find, 'do_find'); finders[fn] = f
    amap = dict(zip(('t1', 't2', 't3'), assign))
    fa.ns['unfold_search'] = PBuiltin(lambda it_, s_, *a, **k: list(ts), 'unfold_search')
    fa.ns['get_finder'] = PBuiltin(lambda it_, sid, config=None: finders.get(amap[sid.attrs['uri']]), 'get_finder')
    st.inputs['finders'] = list(assign)
    try: got = list(it.call(it.getattr(it.call(FIA, [], {}), 'find'), ['any'], {'as_sid': False}))
    except Raised as e:
        st.oblige(f'{name}:raises-nothing', False, ('C10',), info={'exception': V.exc_name(e), 'args': repr(e.exc.attrs.get('args'))[:120]}); st.observed = {'raises': V.exc_name(e)}; return 'ok'
    want = []
    for t in ('t1', 't2', 't3'):
        if amap[t]: want += [a for a in ANSWERS[t] if a not in want]
    st.observed = {'found': list(got)}
    st.oblige(f'{name}:result-is-the-duplicate-free-union-over-the-typed-searches-that-have-a-finder', sorted(got) == sorted(want) and len(set(got)) == len(got), ('C10',), info={'got': repr(got), 'want': repr(want)})
    per = {}
    for t in ('t1', 't2', 't3'):
        if amap[t]: per.setdefault(amap[t], []).append(t)
    ok = sorted((c[0], tuple(c[1])) for c in calls) == sorted((f, tuple(v)) for f, v in per.items()) and all(c[2] is False for c in calls)
    st.oblige(f'{name}:every-finder-is-asked-once-with-exactly-its-typed-searches-in-order', ok, ('C10',), info={'calls': repr(calls)[:200]})
    return 'ok'

def run_lemma(it, st, m):
    """glob(t[k := v], e) <=> glob(t, e) and e_k == v   for every k with t_k == '*', v without '*'   (m segments; glob = C08's whole-segment reading)"""
    t = [z3.String(f'L{m}_t{j}') for j in range(m)]; e = [z3.String(f'L{m}_e{j}') for j in range(m)]; v = z3.String(f'L{m}_v')
    star = z3.StringVal('*')
    def glob(ts, es): return z3.And(*[z3.Or(a == star, a == b) for a, b in zip(ts, es)])
    ok = True
    for k in range(m):
        t2 = list(t); t2[k] = v
        claim = z3.Implies(z3.And(t[k] == star, v != star), glob(t2, e) == z3.And(glob(t, e), e[k] == v))
        st.oblige(f'C10:lemma:glob-with-field-{"k"}-set-selects-the-entries-having-that-value', SBool(claim), ('C10',), info={'segments': m, 'k': k})
    st.observed = {'lemma': m}; st.inputs['segments'] = m
    return 'ok'

# ------------------------------------------------------------------ native side
def _nat_U(s):
    from spil.sid.read.tools import unfold_search
    return sorted(x.uri for x in unfold_search(s))
def crosscheck(case, conc, exp):
    kind = case[0]
    if kind == 'c08': return c08.crosscheck(tuple(case[1:]), conc, exp)
    if kind in ('lemma', 'paths', 'all'): return {'status': 'agree', 'note': 'pure z3 lemma / abstract-callee harness (stubs): no native counterpart'}
    if kind == 'dispatch':
        from spil.sid.read.finders.find_glob import FindByGlob
        from spil import Sid
        calls = []
        class Stub(FindByGlob):
            def star_search(self, search_sids, as_sid=False, do_sort=False): calls.append('star'); return iter(['r1', 'r2'])
            def sorted_search(self, search_sids, as_sid=True): calls.append('sorted'); return iter(['r3'])
        T = next(t for t in C.spec_templates() if is_leaf_type(t)); vals = [v for _, v in C.example_values(T)]
        a = Sid(T + ':' + '/'.join(vals[:-1] + ['*']))
        vv = list(vals)
        if conc['which'] == 'sorted': vv[C.keys_of(T).index('version') if 'version' in C.keys_of(T) else len(vv) - 1] = '>'
        b = Sid(T + ':' + '/'.join(vv))
        try: res = {'calls': calls, 'result': list(Stub().do_find([] if conc['which'] == 'empty' else [a, b], as_sid=False))}
        except BaseException as e_: res = {'raises': type(e_).__name__}
        if res != exp: return {'status': 'diverged', 'input': conc, 'cpython': res, 'engine': exp}
        return {'status': 'agree'}
    if kind == 'find':
        from spil.sid.read.finder import Finder
        got = []
        class Stub(Finder):
            def do_find(self, search_sids, as_sid=True): got.append(list(search_sids)); return iter(())
        try: list(Stub().find(conc['search'], as_sid=False)); res = {'searched': sorted(x.uri for x in got[0])}
        except BaseException as e_: res = {'raises': type(e_).__name__}
        if 'searched' in exp: exp = {'searched': sorted(exp['searched'])}
        if res != exp: return {'status': 'diverged', 'input': conc, 'cpython': res, 'engine': exp}
        return {'status': 'agree'}
    try: res = {'result': _nat_U(conc['search'])}
    except BaseException as e_: res = {'raises': type(e_).__name__}
    if 'result' in exp and exp['result'] is not None: exp = {'result': sorted(exp['result'])}
    if res != exp: return {'status': 'diverged', 'input': conc, 'cpython': res, 'engine': exp}
    return {'status': 'agree'}

def py_expected(case, inputs):
    """executable reading of the law's right-hand side on concrete inputs (native unfold_search of the derived searches)"""
    import re
    kind = case[0]; spec = C.spec_templates()
    if kind in ('or', 'alias'): return sorted({u for d in inputs['derived'] for u in _nat_U(d)})
    if kind in ('tail**', 'mid**'): return sorted({u for d in inputs['derived'] for u in _nat_U(d) if is_leaf_type(u.split(':', 1)[0])})
    if kind in ('filter', 'literal'):
        from spil.sid.read.tools import unfold_search
        out = set(); i = case[2]; w = inputs['value']
        for t in unfold_search(inputs['derived'][0]):
            keys = list(t.fields.keys())
            k = inputs['key'] if kind == 'filter' else (keys[i] if len(keys) > i else None)
            if k not in t.fields: continue
            d = dict(t.fields); d[k] = w
            fits = [T2 for T2 in spec if set(C.keys_of(T2)) == set(d) and all(re.fullmatch(p, d[kk]) for kk, p in spec[T2])]
            if not fits: continue
            T3 = fits[0] if len(fits) == 1 or t.type not in fits else t.type
            out.add(T3 + ':' + '/'.join(d[kk] for kk in C.keys_of(T3)))
        return sorted(out)
    return None

def replay(case, ob, inputs):
    C.clear_native_caches()
    kind = case[0]
    if kind == 'c08': return c08.replay(tuple(case[1:]), ob, inputs)
    if kind in ('lemma',): return {'confirmed': False, 'call': 'z3 lemma', 'observed': '', 'expected': ''}
    if kind == 'paths': return replay_paths(case, ob, inputs)
    if kind == 'all': return replay_all(case, ob, inputs)
    if kind in ('dispatch', 'find'):
        r = crosscheck(case, inputs, {})
        return {'confirmed': True, 'call': f'{kind} {inputs!r}'[:200], 'observed': repr(r.get('cpython'))[:300], 'expected': ob.get('name', '')}
    s = inputs['search']
    r = C.call_native(lambda: _nat_U(s))
    if r[0] == 'raise':
        return {'confirmed': True, 'call': f'unfold_search({s!r})', 'observed': f'raises {r[1]}: {r[2]}', 'expected': 'a list of typed searches', 'reproducer': f'from spil.sid.read.tools import unfold_search; unfold_search({s!r})'}
    want = py_expected(case, inputs)
    ok = want is None or r[1] == want
    if ok and len(set(r[1])) != len(r[1]): ok = False
    return {'confirmed': not ok, 'call': f'unfold_search({s!r}) vs the union over {inputs.get("derived")!r}'[:400], 'observed': repr(r[1])[:400], 'expected': repr(want)[:400],
            'reproducer': f'from spil.sid.read.tools import unfold_search; print(unfold_search({s!r})); print([unfold_search(d) for d in {inputs.get("derived")!r}])'}

def replay_paths(case, ob, inputs):
    """native replay of the abstract-callee harness: the real star_search_simple with glob.glob, Sid and the search Sids replaced by the same stubs"""
    import spil.sid.pathops.find_paths as fp
    from spil.util.exception import SpilException
    from unittest import mock
    if case[1] == 'nopath': return {'confirmed': False, 'call': 'star_search_simple (stubs)', 'observed': '', 'expected': ''}
    _, same_pat, types, g1, g2, rk = case
    class S:
        def __init__(self, t, uri, pat): self.type = t; self.uri = uri; self._p = pat
        def path(self, config=None): return self._p
        def __str__(self): return self.uri
        __repr__ = __str__
        def __bool__(self): return bool(self.type)
    G = {'/root/x/*': list(g1)}
    if not same_pat: G['/root/y/*'] = list(g2)
    R = {'p1': rk[0], 'p2': rk[1], 'p3': 'B'}
    def sid_(*a, path=None, config=None, **k):
        kind = R[path.rsplit('/', 1)[-1]]
        if kind == 'raises': raise SpilException('not conform')
        return S(None if kind == 'untyped' else kind, f'{kind}:{path}', None)
    searches = [S(types[0], f'{types[0]}:s1', '/root/x/*'), S(types[1], f'{types[1]}:s2', '/root/x/*' if same_pat else '/root/y/*')]
    f = fp.FindInPaths.__new__(fp.FindInPaths); f.config_name = 'local'; f.conf = mock.Mock(search_path_mapping={})
    with mock.patch.object(fp.glob, 'glob', lambda pat, *a, **k: [f'/root/{p}' for p in G.get(pat, [])]), mock.patch.object(fp, 'Sid', sid_):
        r = C.call_native(lambda: list(f.star_search_simple(searches, as_sid=False)))
    want = []; seen = []
    for s_ in searches:
        for p in [f'/root/{q}' for q in G.get(s_._p, [])]:
            if p in seen: continue
            kind = R[p.rsplit('/', 1)[-1]]
            if kind in ('A', 'B') and kind == s_.type: seen.append(p); want.append(f'{kind}:{p}')
    ok = r[0] == 'ret' and r[1] == want
    return {'confirmed': not ok, 'call': f'FindInPaths.star_search_simple with two typed searches {types} rendering to {"the same" if same_pat else "different"} glob pattern(s); glob.glob and Sid(path=) stubbed: G={G} R={R}',
            'observed': repr(r)[:300], 'expected': repr(want)[:300]}

def replay_all(case, ob, inputs):
    import spil.sid.read.finders.find_all as fa
    from unittest import mock
    assign = case[1]
    class T:
        def __init__(self, u): self.uri = u; self.type = 'T'
        def __str__(self): return self.uri
        __repr__ = __str__
    class F:
        def __init__(self, n): self.n = n
        def do_find(self, search_sids, as_sid=True): return iter([a for x in search_sids for a in ANSWERS[x.uri]])
    ts = [T(n) for n in ('t1', 't2', 't3')]; fs = {'F1': F('F1'), 'F2': F('F2')}; amap = dict(zip(('t1', 't2', 't3'), assign))
    with mock.patch.object(fa, 'unfold_search', lambda s, *a, **k: list(ts)), mock.patch.object(fa, 'get_finder', lambda sid, config=None: fs.get(amap[sid.uri])):
        r = C.call_native(lambda: list(fa.FindInAll().find('any', as_sid=False)))
    want = []
    for t in ('t1', 't2', 't3'):
        if amap[t]: want += [a for a in ANSWERS[t] if a not in want]
    ok = r[0] == 'ret' and sorted(r[1]) == sorted(want) and len(set(r[1])) == len(r[1])
    return {'confirmed': not ok, 'call': f'FindInAll.find with unfold_search / get_finder / do_find stubbed; finders per typed search {assign}', 'observed': repr(r)[:300], 'expected': repr(want)}

# ------------------------------------------------------------------ recorded finding C10-alias-before-doublestar
def in_known_class(entry, inputs):
    """the segment directly before '/**' is an extension alias name"""
    if entry.get('id') != 'C10-alias-before-doublestar' or not isinstance(inputs, dict): return False
    s_ = inputs.get('search')
    if not isinstance(s_, str): return False
    segs = s_.split('?')[0].split('/')
    return '**' in segs and segs.index('**') > 0 and segs[segs.index('**') - 1].strip() in C.conf('extension_alias')
def reproduce_known(entry):
    w = entry['native_witness']; C.clear_native_caches()
    got = _nat_U(w['search'])
    want = sorted({u for d in w['derived'] for u in _nat_U(d) if is_leaf_type(u.split(':', 1)[0])})
    return got != want
