"""
C03 -- parent, get_as and '/' navigate one consistent hierarchy.

Functions under contract (real source, callees inlined down to resolva and the `re` model):
  spil.sid.sid: TypedSid.get_as, parent, keytype, basetype, __len__, get ; StringSid.__truediv__, copy, uri, string, __str__
  reached through them: BaseSid.__new__, sid_factory.sid_factory, sid_factory.dict_to_sid, sid_to_sid,
  sid_resolver.dict_to_type, dict_to_sid, sid_to_dict

requires  wf(x): x is an arbitrary well-formed typed Sid of template T (every field value a symbolic string constrained only by its
          pattern), or an arbitrary untyped Sid (any string).
ensures   for every key k_j of x:   get_as(k_j) is typed, its fields are exactly the first j items of x.fields (same order, same values),
          its string is the '/'-join of those values, and its type is a template with exactly those keys          [raises nothing]
          parent == get_as(k_{n-1}) (one field less) ; one-field Sid: parent has the same view as x
          keytype == k_n ; basetype == prefix of the type before the separator ; len == n ; get(k) == value
          x naturally typed and its values free of the reserved characters '?' ':'  =>  (parent / last value) has the view of x
          frame: view(x) is unchanged by every call
          untyped x: parent, get_as(k) -> the empty Sid ; keytype, basetype, get -> None ; len 0 ; nothing raises
"Walking parents reaches the one-field Sid in len-1 steps" is the induction over n given by len(parent) == n-1 (proved per template).
"""
from __future__ import annotations
import z3
from pyvc.sstr import SStr, S, SBool, Var, simp, zb, OutsideSubset, pattern_re
from pyvc import interp as V
from pyvc.interp import PDict, PObj, Raised, Lazy, interleave
from . import common as C

PROPERTY = 'C03'
FUNCTIONS = {'spil/sid/sid.py': ['TypedSid.get_as', 'TypedSid.parent', 'TypedSid.keytype', 'TypedSid.basetype', 'TypedSid.__len__', 'TypedSid.get', 'StringSid.__truediv__', 'StringSid.copy', 'TypedSid.uri', 'BaseSid.__new__'],
             'spil/sid/core/sid_factory.py': ['sid_factory', 'dict_to_sid', 'sid_to_sid'],
             'spil/sid/core/sid_resolver.py': ['dict_to_type', 'dict_to_sid', 'sid_to_dict']}
TRUSTED = ['resolva.Resolver.format_all/format_one/resolve_one/resolve_first + template.match_to_dict: interpreted from the installed source',
           're.Pattern.search / Match.groupdict on the snapshot patterns: modelled']
ASSUMPTIONS = ["A-reserved: the clause 'parent / last-value gives back the Sid' is stated for field values free of the Sid syntax's reserved characters '?' and ':' (a string containing them parses as query / uri by C01's own definition)",
               "the '/' clause carries the natural-typing precondition type(x) == nat_type(string(x)): for a uri-forced non-first type the operator re-resolves by design"]
EXPLANATION = 'every template x every key, field values fully symbolic under their patterns; untyped Sids with arbitrary strings'
BUDGET_S = {'quick': 900, 'thorough': 2400}

def cases(tier):
    spec = C.spec_templates()
    cs = [('get_as', T, j) for T in spec for j in range(len(spec[T]))]
    cs += [('nav', T) for T in spec]
    cs += [('untyped',)]
    return cs

def obs_view(o):
    t, f, s = C.view(o)
    return {'type': t, 'fields': [[k, v] for k, v in f] if f is not None else None, 'string': s}

def check_frame(it, st, name, x, T, vals):
    t, f, s = C.view(x)
    same = t == T and [k for k, _ in f] == [k for k, _ in vals] and all(a is b for (_, a), (_, b) in zip(f, vals))
    st.oblige(f'{name}:frame-self-unchanged', same and it.py_eq(s, it.concat(interleave('/', [v for _, v in vals]))), ('C03', 'C14'))

def run(it, st, case):
    kind = case[0]
    if kind == 'untyped': return run_untyped(it, st)
    T = case[1]
    x, vals = C.mk_typed(it, st, T)
    st.inputs['type'] = T; st.inputs['values'] = [v for _, v in vals]
    keys = [k for k, _ in vals]; n = len(keys)
    if kind == 'get_as':
        j = case[2]; key = keys[j]; name = 'C03:TypedSid.get_as'
        try: y = it.call(it.getattr(x, 'get_as'), [key], {})
        except Raised as e:
            st.oblige(f'{name}:raises-nothing', False, ('C03',), info={'exception': V.exc_name(e), 'args': repr(e.exc.attrs.get('args'))[:150]})
            st.observed = {'raises': V.exc_name(e)}; return 'ok'
        st.oblige(f'{name}:raises-nothing', True, ('C03',))
        st.observed = obs_view(y)
        prefix_obligations(it, st, name, y, vals[:j + 1])
        check_frame(it, st, name, x, T, vals)
        return 'ok'
    # ---- nav
    name = 'C03:TypedSid'
    try:
        kt = it.getattr(x, 'keytype'); bt = it.getattr(x, 'basetype'); ln = it.call(V.BUILTINS['len'], [x], {})
        gets = [it.call(it.getattr(x, 'get'), [k], {}) for k in keys]
        p = it.getattr(x, 'parent')
    except Raised as e:
        st.oblige(f'{name}.navigation:raises-nothing', False, ('C03',), info={'exception': V.exc_name(e), 'args': repr(e.exc.attrs.get('args'))[:150]})
        st.observed = {'raises': V.exc_name(e)}; return 'ok'
    st.oblige(f'{name}.keytype:is-the-last-field-name', kt == keys[-1], ('C03',), info={'keytype': repr(kt)})
    st.oblige(f'{name}.basetype:is-the-type-prefix', bt == T.split(C.conf('sidtype_keytype_sep'))[0], ('C03',), info={'basetype': repr(bt)})
    st.oblige(f'{name}.__len__:is-the-number-of-fields', ln == n, ('C03',))
    st.oblige(f'{name}.get:returns-the-field-value', it.conj([it.py_eq(g, v) for g, (_, v) in zip(gets, vals)]), ('C03',))
    st.observed = dict(obs_view(p), keytype=kt, basetype=bt, len=ln)
    if n == 1:
        st.oblige(f'{name}.parent:one-field-sid-is-its-own-parent', view_equal(it, p, T, vals), ('C03',))
    else:
        prefix_obligations(it, st, f'{name}.parent', p, vals[:-1])
    check_frame(it, st, f'{name}.navigation', x, T, vals)
    # ---- parent / last value (natural typing, reserved characters excluded)
    if n > 1 and isinstance(p, PObj) and p.attrs.get('_fields'):
        spec = C.spec_templates()
        segs = [v for _, v in vals]
        for T2 in spec:
            if T2 == T: break
            if len(spec[T2]) != n: continue
            conds = C.accepts(st, T2, segs)
            if any(c is False for c in conds): continue
            zs = [c.z for c in conds if c is not True]
            st.assume(z3.Not(z3.And(*zs)) if zs else z3.BoolVal(False))      # requires: x is naturally typed
        last = vals[-1][1]
        for c in '?:':
            if not st.str_free_of(last, c):
                for a in st.norm(last).atoms:
                    if isinstance(a, Var): st.assume(z3.Not(z3.Contains(a.z, z3.StringVal(c)))); st.excl.setdefault(a.name, set()).add(c)
        for _, v in vals[:-1]:
            for a in st.norm(v).atoms:
                if isinstance(a, Var):
                    for c in '?:':
                        if c not in st.excl.get(a.name, ()): st.assume(z3.Not(z3.Contains(a.z, z3.StringVal(c)))); st.excl[a.name].add(c)
        if not st.feasible(): return 'ok'
        try: z = it.binop(V.ast.Div(), p, last)
        except Raised as e:
            st.oblige(f'C03:StringSid.__truediv__:raises-nothing', False, ('C03',), info={'exception': V.exc_name(e)}); return 'ok'
        st.oblige('C03:StringSid.__truediv__:parent-slash-last-value-gives-back-the-sid', view_equal(it, z, T, vals), ('C03',), info={'got_type': repr(z.attrs.get('_type')) if isinstance(z, PObj) else repr(z)})
        st.observed['div'] = obs_view(z) if isinstance(z, PObj) else None
    return 'ok'

def view_equal(it, y, T, vals):
    if not isinstance(y, PObj): return False
    t, f, s = C.view(y)
    if not isinstance(f, list) or [k for k, _ in f] != [k for k, _ in vals]: return False
    return it.conj([it.py_eq(t, T)] + [it.py_eq(a, b) for (_, a), (_, b) in zip(f, vals)] + [it.py_eq(s, it.concat(interleave('/', [v for _, v in vals])))])

def prefix_obligations(it, st, name, y, want):
    """y must be the typed Sid of exactly the items `want`"""
    if not isinstance(y, PObj):
        st.oblige(f'{name}:returns-a-Sid', False, ('C03',)); return
    t, f, s = C.view(y)
    st.oblige(f'{name}:result-is-typed', bool(f) and bool(t), ('C03',), info={'type': repr(t)})
    if not f: return
    keys_ok = [k for k, _ in f] == [k for k, _ in want]
    st.oblige(f'{name}:fields-are-exactly-the-prefix-keys', keys_ok, ('C03',), info={'got': [repr(k) for k, _ in f], 'want': [k for k, _ in want]})
    if not keys_ok: return
    st.oblige(f'{name}:field-values-are-the-prefix-values', it.conj([it.py_eq(a, b) for (_, a), (_, b) in zip(f, want)]), ('C03',))
    st.oblige(f'{name}:string-is-the-prefix-of-the-string', it.py_eq(s, it.concat(interleave('/', [v for _, v in want]))), ('C03',))
    tn = simp(st.norm(t)) if isinstance(t, SStr) else t
    st.oblige(f'{name}:type-is-a-template-with-exactly-these-keys', isinstance(tn, str) and tn in C.spec_templates() and C.keys_of(tn) == [k for k, _ in want], ('C03',), info={'type': repr(tn)})

def run_untyped(it, st):
    Sid = C.sid_class(it)
    x = PObj(Sid); s = SStr([st.fresh('u')]); x.attrs.update({'_string': s, '_type': '', '_fields': PDict()})
    st.inputs['type'] = ''; st.inputs['string'] = s
    name = 'C03:untyped-Sid'
    try:
        p = it.getattr(x, 'parent'); g = it.call(it.getattr(x, 'get_as'), ['project'], {})
        kt = it.getattr(x, 'keytype'); bt = it.getattr(x, 'basetype'); gv = it.call(it.getattr(x, 'get'), ['project'], {})
        ln = it.call(V.BUILTINS['len'], [x], {})
    except Raised as e:
        st.oblige(f'{name}:navigation-raises-nothing', False, ('C03',), info={'exception': V.exc_name(e)}); st.observed = {'raises': V.exc_name(e)}; return 'ok'
    def empty(o): return isinstance(o, PObj) and not o.attrs.get('_fields').items and o.attrs.get('_type') == '' and o.attrs.get('_string') == ''
    st.oblige(f'{name}:parent-and-get_as-return-the-empty-Sid', empty(p) and empty(g), ('C03',))
    st.oblige(f'{name}:keytype-basetype-get-return-None-len-0', kt is None and bt is None and gv is None and ln == 0, ('C03',))
    st.observed = {'parent': obs_view(p) if isinstance(p, PObj) else None, 'keytype': kt, 'basetype': bt, 'len': ln}
    return 'ok'

# ------------------------------------------------------------------ native side
def native_sid(T, values, string=None):
    Sid = C.native()['Sid']
    x = Sid(from_factory=True)
    keys = C.keys_of(T) if T else []
    x._init(string='/'.join(values) if string is None else string, type=T, fields=dict(zip(keys, values)))
    return x
def nview(o): return {'type': o.type, 'fields': [[k, v] for k, v in o.fields.items()], 'string': o.string}

def crosscheck(case, conc, exp):
    kind = case[0]
    try:
        if kind == 'untyped':
            x = native_sid('', [], conc['string'])
            got = {'parent': nview(x.parent), 'keytype': x.keytype, 'basetype': x.basetype, 'len': len(x)}
        elif kind == 'get_as':
            x = native_sid(conc['type'], conc['values']); key = C.keys_of(conc['type'])[case[2]]
            got = nview(x.get_as(key))
        else:
            x = native_sid(conc['type'], conc['values'])
            got = dict(nview(x.parent), keytype=x.keytype, basetype=x.basetype, len=len(x))
            if 'div' in exp: got['div'] = nview(x.parent / conc['values'][-1])
    except BaseException as e:
        got = {'raises': type(e).__name__}
    if got != exp: return {'status': 'diverged', 'input': conc, 'cpython': got, 'engine': exp}
    return {'status': 'agree'}

def replay(case, ob, inputs):
    kind = case[0]
    if kind == 'untyped':
        x = native_sid('', [], inputs['string'])
        r = C.call_native(lambda: (C.native_view(x.parent), C.native_view(x.get_as('project')), x.keytype, x.basetype, x.get('project'), len(x)))
        ok = r[0] == 'ret' and r[1] == (('', [], ''), ('', [], ''), None, None, None, 0)
        return {'confirmed': not ok, 'call': f'untyped Sid {inputs["string"]!r}: parent/get_as/keytype/basetype/get/len', 'observed': repr(r)[:300], 'expected': 'empty Sids, None, 0'}
    T, values = inputs['type'], inputs['values']; keys = C.keys_of(T)
    x = native_sid(T, values)
    mk = f"x=Sid(from_factory=True); x._init(string={'/'.join(values)!r}, type={T!r}, fields={dict(zip(keys, values))!r})"
    if kind == 'get_as':
        j = case[2]
        r = C.call_native(x.get_as, keys[j])
        want = (lambda y: list(y.fields.items()) == list(zip(keys[:j + 1], values[:j + 1])) and y.string == '/'.join(values[:j + 1]) and C.keys_of(y.type) == keys[:j + 1] if y.type else False)
        ok = r[0] == 'ret' and want(r[1])
        return {'confirmed': not ok, 'call': f'{mk}; x.get_as({keys[j]!r})', 'observed': repr(C.native_view(r[1]) if r[0] == 'ret' else r)[:300], 'expected': f'typed Sid of {list(zip(keys[:j+1], values[:j+1]))!r}'}
    def nav():
        p = x.parent
        out = {'keytype': x.keytype == keys[-1], 'basetype': x.basetype == T.split('__')[0], 'len': len(x) == len(keys), 'get': all(x.get(k) == v for k, v in zip(keys, values))}
        if len(keys) == 1: out['parent'] = C.native_view(p) == (T, list(zip(keys, values)), '/'.join(values))
        else:
            out['parent'] = list(p.fields.items()) == list(zip(keys[:-1], values[:-1])) and p.string == '/'.join(values[:-1])
            if C.py_nat_type('/'.join(values))[0] == T and not any(c in v for v in values for c in '?:'):
                out['div'] = C.native_view(p / values[-1]) == (T, list(zip(keys, values)), '/'.join(values))
        return out
    r = C.call_native(nav)
    ok = r[0] == 'ret' and all(r[1].values())
    return {'confirmed': not ok, 'call': f'{mk}; navigation', 'observed': repr(r)[:300], 'expected': 'all clauses true'}
