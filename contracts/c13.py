"""
C13 -- answers never depend on what was asked before (caches are invisible).

Functions under contract: the three decorator closures of spil/util/caching.py, executed from their real source:
  lru_cache(user_function).wrapper, lru_kw_cache(user_function).wrapper, hit_cache(user_function).wrapper
and spil/sid/read/tools.py:apply_unfolders (result order must be a function of the result *set*).

Refinement contract of a wrapper w = deco(F), F an uninterpreted deterministic function of (positional args, keyword args):
  for every history h of calls and every call c = (a, kw) that F accepts:   w(c) after h  ==  F(c),  raises nothing
  (signature refinement: keyword calls are accepted; hit_cache: a falsy result is returned and not stored).
Induction over histories: the cache is a dict; a call reads at most the one entry stored under its own key and an eviction
removes one entry, so a reachable cache state is represented by the entries written by earlier calls.  The harness executes the
real closure on sequences of 2 and 3 arbitrary calls (all pairs / triples of call shapes, every argument value symbolic, which
includes a positional value that equals a keyword name) with the capacity `_max_size` a symbolic integer >= 1, so that
hit, miss, eviction-then-miss and re-insertion after eviction are all explored.  Every result is compared with F(call).
"""
from __future__ import annotations
import itertools, z3
from pyvc.sstr import SStr, S, SBool, SInt, Var, simp, zb, OutsideSubset
from pyvc import interp as V
from pyvc.interp import PDict, PObj, Raised, Lazy
from . import common as C
def W_REPO():
    from pyvc import world
    return world.REPO

PROPERTY = 'C13'
FUNCTIONS = {'spil/util/caching.py': ['lru_cache', 'lru_cache.wrapper', 'lru_kw_cache', 'lru_kw_cache.wrapper', 'hit_cache', 'hit_cache.wrapper'],
             'spil/sid/read/tools.py': ['apply_unfolders'],
             'spil/sid/sid.py': ['StringSid.__lt__', 'StringSid.__eq__', 'StringSid.__hash__', 'StringSid.__repr__', 'TypedSid.uri']}
TRUSTED = ['functools.wraps: returns the wrapper unchanged (modelled)']
ASSUMPTIONS = ['order harness: `<` on str is abstracted to an arbitrary strict total order (stronger than needed: the obligation is proved for every total order)',
               'the wrapped function is a deterministic function of its (positional, keyword) arguments without side effects on the cache (supplied by the contracts of the cached entry points: C01, C05, C06, C07)',
               'dict iteration/popitem order = insertion order (CPython >= 3.7); a set iterates in an arbitrary order: both orders of a two-element set are executed',
               'hash-seed / fresh-process independence is decided in its deductive form: every cached entry point is a transparent memo of a function of its arguments and the result order is a function of the result set; nothing is executed under different seeds',
               'the clause "where data did change between two calls the later call reflects the change" is decided by the decorated-functions scan (no data-reading function is cached), not by a proof about the file system']
EXPLANATION = 'refinement of the three cache wrappers against an uninterpreted F over all 2- and 3-call histories of arbitrary call shapes with symbolic capacity; order determinism of apply_unfolders; scan of decorated functions'
BUDGET_S = {'quick': 600, 'thorough': 1800}

SHAPES = [(0, ()), (1, ()), (2, ()), (1, ('config',)), (1, ('do_extrapolate',)), (2, ('config',)), (0, ('config',)), (1, ('config', 'do_extrapolate')), (1, ('do_extrapolate', 'config'))]
DECOS = ('lru_cache', 'lru_kw_cache', 'hit_cache')
# functions that may be cached: pure functions of their arguments and the configuration
PURE_OK = {'spil.sid.core.sid_factory:sid_to_sid', 'spil.sid.core.sid_resolver:sid_to_dict', 'spil.sid.core.sid_resolver:sid_to_dicts',
           'spil.sid.pathops.fs_resolver:path_to_dict', 'spil.sid.read.tools:unfold_search', 'spil.sid.core.utils:simple_typing',
           'spil.sid.pathops.pathconfig:get_path_config', 'spil.sid.read.finders.find_all:get_finder', 'spil.sid.sid:PathSid.path',
           'spil.sid.read.getters.getter_all:get_getter', 'spil.sid.write.write_all:get_writer'}

def cases(tier):
    cs = []
    small = SHAPES[:6] if tier == 'quick' else SHAPES
    for d in DECOS:
        for s1, s2 in itertools.product(small, repeat=2): cs.append(('calls', d, (s1, s2)))
        tri = [SHAPES[1], SHAPES[3], SHAPES[4]] if tier == 'quick' else SHAPES[:6]
        for t in itertools.product(tri, repeat=3): cs.append(('calls', d, t))
    spec = C.spec_templates(); names = list(spec)
    for i, a in enumerate(names):
        for b in names[i:]:
            if len(spec[a]) == len(spec[b]): cs.append(('order', a, b))
    cs.append(('scan',))
    cs += client_cases()
    cs += [('client-unfold', a, b) for a, b in UNFOLD_HISTORIES] + [('client-unfold', b, a) for a, b in UNFOLD_HISTORIES]
    return cs

# ------------------------------------------------------------------ clients: the cached constructor chain of Sid()
# The decorator proofs above take "equal keys => same call" for granted.  For the real cached functions the keys are strings AND Sid objects, and
# Sid('T:x') == 'x' holds for every type T (StringSid.__eq__): a table keyed by == alone would conflate Sid(Sid('T2:x')) with Sid('x').  CPython's
# key rule is "equal hash and ==" (Interp.key_eq), so what keeps them apart is StringSid.__hash__ hashing the uri.  Client obligation: in every
# two-call history over {Sid(x), Sid(Sid('T2:x'))} (x a string whose natural type T1 differs from T2) each answer is the fresh answer.
def client_cases():
    import re
    spec = C.spec_templates(); names = list(spec); out = []
    for j, T2 in enumerate(names):
        for T1 in names[:j]:
            if len(spec[T1]) != len(spec[T2]): continue
            vals = []
            for (k1, p1), (k2, p2) in zip(spec[T1], spec[T2]):
                c = next((c for c in C.CANDIDATES + ['*'] if re.fullmatch(p1, c) and re.fullmatch(p2, c)), None)
                if c is None: break
                vals.append(c)
            else:
                s_ = '/'.join(vals)
                if C.py_nat_type(s_)[0] == T1 and C.py_nat_type(s_, forced=T2)[0] == T2:
                    for order in ('string-first', 'sid-first'): out.append(('client', T1, T2, s_, order))
    return out
def run_client(it, st, T1, T2, s_, order):
    Sid = C.sid_class(it); name = 'C13:Sid()-constructor-chain'
    st.inputs['string'] = s_; st.inputs['natural_type'] = T1; st.inputs['forced_type'] = T2; st.inputs['order'] = order
    try:
        x2 = it.call(Sid, [T2 + ':' + s_], {})          # the Sid object of the forced type (built from its uri: a different key)
        if order == 'string-first': a = it.call(Sid, [s_], {}); b = it.call(Sid, [x2], {})
        else: b = it.call(Sid, [x2], {}); a = it.call(Sid, [s_], {})
        # the keyword forms go through the same cached functions
        a2 = it.call(Sid, [], {'sid': s_}); b2 = it.call(Sid, [], {'sid': x2})
    except Raised as e:
        st.oblige(f'{name}:raises-nothing', False, ('C13',), info={'exception': V.exc_name(e)}); st.observed = {}; return 'ok'
    st.observed = {}
    def tv(o): return (C.view(o)[0], C.view(o)[2]) if isinstance(o, V.PObj) else None
    ok = tv(a) == (T1, s_) and tv(b) == (T2, s_) and tv(a2) == (T1, s_) and tv(b2) == (T2, s_)
    st.oblige(f'{name}:a-string-and-a-sid-object-that-compare-equal-do-not-share-a-cache-entry', ok, ('C13', 'C14'),
              info={'Sid(string)': repr(tv(a)), 'Sid(sid-object)': repr(tv(b)), 'keyword forms': repr((tv(a2), tv(b2))), 'fresh answers': repr(((T1, s_), (T2, s_)))})
    return 'ok'

# ------------------------------------------------------------------ clients: unfold_search and the cached functions below it (simple_typing, sid_to_dicts, ...)
# A cached function hands out the SAME list / dict object on every hit: a caller that extends or edits it changes later answers.  Client obligation: in a
# two-call history of the real unfold_search the second answer is the answer of a fresh process (computed by C07's denotation oracle on the concrete string).
UNFOLD_HISTORIES = [('hamlet/s,a', 'hamlet/a'), ('hamlet/a/char/hamlet/model/v001/w/maya', 'hamlet/a/char/hamlet/model/v001/w/ma'), ('hamlet/a,s/*', 'hamlet/a/*'),
                    ('hamlet/a/char/hamlet/model/v001/w/movie', 'hamlet/a/char/hamlet/model/v001/w/avi'), ('hamlet/s/sq010,sq020', 'hamlet/s/sq010'), ('hamlet/a/**', 'hamlet/a/*')]
def run_client_unfold(it, st, first, second):
    from .c07 import py_den
    tools = it.module('spil.sid.read.tools'); name = 'C13:unfold_search[two calls]'
    st.inputs['first'] = first; st.inputs['second'] = second
    try:
        r1 = it.call(tools.ns['unfold_search'], [first], {}); u1 = sorted(it.getattr(x, 'uri') for x in r1)
        r2 = it.call(tools.ns['unfold_search'], [second], {}); u2 = sorted(it.getattr(x, 'uri') for x in r2)
        r3 = it.call(tools.ns['unfold_search'], [first], {}); u3 = sorted(it.getattr(x, 'uri') for x in r3)
    except Raised as e:
        st.oblige(f'{name}:raises-nothing', False, ('C13',), info={'exception': V.exc_name(e)}); st.observed = {}; return 'ok'
    st.observed = {}
    u1, u2, u3 = [[simp(st.norm(x)) if isinstance(x, SStr) else x for x in u] for u in (u1, u2, u3)]
    w1, w2 = py_den(first), py_den(second)
    st.oblige(f'{name}:each-answer-is-the-answer-of-a-fresh-process', u1 == w1 and u2 == w2 and u3 == w1, ('C13', 'C07'),
              info={'first': first, 'second': second, 'answers': repr((u1, u2, u3))[:400], 'fresh': repr((w1, w2))[:300]})
    return 'ok'

class Fun:
    """uninterpreted deterministic function of (args, kwargs): memo table, fresh result per distinct argument tuple"""
    def __init__(self, st): self.table = []; self.st = st
    def pyvc_call(self, it, args, kwargs):
        names = sorted(kwargs)
        for (n, ns, vals), v in self.table:
            if n == len(args) and ns == names:
                if it.known_eq(vals, list(args) + [kwargs[k] for k in names]): return v
        r = SStr([self.st.fresh('F')]); self.table.append(((len(args), names, list(args) + [kwargs[k] for k in names]), r)); return r
    def pyvc_getattr(self, it, name):
        if name in ('__name__', '__doc__', '__module__', '__qualname__'): return 'F'
        if name == '__dict__': return V.Opaque('__dict__')
        it.raise_('AttributeError', name)

def run(it, st, case):
    if case[0] == 'client': return run_client(it, st, *case[1:])
    if case[0] == 'client-unfold': return run_client_unfold(it, st, case[1], case[2])
    if case[0] == 'calls': return run_calls(it, st, case)
    if case[0] == 'order': return run_order(it, st, case[1], case[2])
    if case[0] == 'scan': return run_scan(it, st)

def run_calls(it, st, case):
    _, deco, shapes = case
    caching = it.module('spil.util.caching')
    ms = SInt(z3.Int('max_size')); st.assume(ms.z >= 1); caching.ns['_max_size'] = ms
    st.inputs['max_size'] = ms
    F = Fun(st)
    w = it.call(caching.ns[deco], [F], {})
    name = f'C13:caching.{deco}.wrapper'
    calls = []
    for i, (npos, kws) in enumerate(shapes):
        args = [SStr([st.fresh(f'c{i}a{j}_')]) for j in range(npos)]
        kwargs = {k: SStr([st.fresh(f'c{i}k_{k}_')]) for k in kws}
        calls.append((args, kwargs))
    st.inputs['calls'] = [[list(a), PDict(list(k.items()))] for a, k in calls]
    st.inputs['deco'] = deco
    st.observed = {'eq': [], 'raised': None}
    for i, (a, k) in enumerate(calls):
        try: r = it.call(w, list(a), dict(k))
        except Raised as e:
            st.observed['raised'] = i
            st.inputs['ftable'] = [[n, list(ns), list(vals), r] for (n, ns, vals), r in F.table]
            st.oblige(f'{name}:accepts-every-call-shape-raises-nothing', False, ('C13',), info={'call': i, 'shape': shapes[i], 'exception': V.exc_name(e), 'msg': repr(e.exc.attrs.get('args'))[:100]})
            return 'ok'
        exp = F.pyvc_call(it, list(a), dict(k))
        e_ = it.py_eq(r, exp); st.observed['eq'].append(e_ if isinstance(e_, bool) else SBool(e_.z))
        st.oblige(f'{name}:result-equals-wrapped-function-of-this-call', it.py_eq(r, exp), ('C13',), info={'call': i, 'shapes': shapes})
    st.oblige(f'{name}:accepts-every-call-shape-raises-nothing', True, ('C13',))
    st.inputs['ftable'] = [[n, list(ns), list(vals), r] for (n, ns, vals), r in F.table]
    return 'ok'

def run_order(it, st, T1, T2):
    """apply_unfolders(sid, [f]) where f yields two distinct well-formed typed Sids (types T1, T2, field values symbolic):
    the result must not depend on the order in which the set iterates"""
    tools = it.module('spil.sid.read.tools')
    it.abstract_str_order = True      # `<` on strings is an arbitrary strict total order: the obligation must hold for every such order
    objs = []
    for tag, T in (('x', T1), ('y', T2)):
        o, vals = C.mk_typed(it, st, T, tag=tag); objs.append(o)
        st.inputs[f'{tag}_type'] = T; st.inputs[f'{tag}_string'] = o.attrs['_string']
    x, y = objs
    if it.known_eq(x, y): return 'ok'          # equal Sids collapse in the set: nothing to order
    outs = []
    for order in ([x, y], [y, x]):
        f = V.PBuiltin(lambda it_, sids, order=order: list(order), 'unfolder')
        try: outs.append(it.call(tools.ns['apply_unfolders'], ['q', [f]], {}))
        except Raised as e:
            st.oblige('C13:tools.apply_unfolders:raises-nothing', False, ('C13',), info={'exception': V.exc_name(e)}); return 'ok'
    same = len(outs[0]) == len(outs[1]) and all(a is b for a, b in zip(outs[0], outs[1]))
    st.oblige('C13:tools.apply_unfolders:order-is-a-function-of-the-result-set', same, ('C13',))
    return 'ok'

def decorated_functions(world):
    """(qualname, decorator) for every function in /repo/spil decorated with one of the cache decorators"""
    import ast, os
    out = []
    root = os.path.join(world.repo, 'spil')
    for dp, dn, fn in os.walk(root):
        for f in fn:
            if not f.endswith('.py'): continue
            path = os.path.join(dp, f); mod = os.path.relpath(path, world.repo)[:-3].replace('/', '.')
            try: tree = world.parse(path)
            except SyntaxError: continue
            alias = {}
            for n in ast.walk(tree):
                if isinstance(n, ast.ImportFrom) and n.module == 'spil.util.caching':
                    for a in n.names: alias[a.asname or a.name] = a.name
            def visit(body, prefix):
                for n in body:
                    if isinstance(n, ast.ClassDef): visit(n.body, prefix + n.name + '.')
                    elif isinstance(n, ast.FunctionDef):
                        for d in n.decorator_list:
                            if isinstance(d, ast.Name) and d.id in alias: out.append((f'{mod}:{prefix}{n.name}', alias[d.id], path, n))
            visit(tree.body, '')
    return out
IMPURE = {'glob', 'iglob', 'open', 'exists', 'is_file', 'is_dir', 'iterdir', 'listdir', 'walk', 'scandir', 'stat', 'read_text', 'load', 'find', 'find_one', 'star_search', 'do_find', 'get', 'get_data', 'get_attr', 'now', 'time', 'random', 'environ', 'getenv'}
def run_scan(it, st):
    import ast
    st.inputs['scan'] = 'decorated functions'
    found = decorated_functions(it.world)
    st.oblige('C13:cached-entry-points:scan-found-the-decorated-functions', len(found) >= 1, ('C13',), info={'decorated': [(q, d) for q, d, _, _ in found]})
    C.frame_scan_obligations(it, st, 'C13:finders', ('C13', 'C12'))
    for q, d, path, node in found:
        if q in PURE_OK: ok = True; why = 'listed pure entry point'
        else:
            names = {n.attr for n in ast.walk(node) if isinstance(n, ast.Attribute)} | {n.id for n in ast.walk(node) if isinstance(n, ast.Name)}
            bad = sorted(names & IMPURE); ok = not bad; why = f'references data-reading names {bad}' if bad else 'no data-reading name referenced'
        st.oblige(f'C13:cached-entry-points:{q}:does-not-read-changing-data', ok, ('C13',), info={'decorator': d, 'why': why})
    return 'ok'

# ------------------------------------------------------------------ native side
def _native_calls(inputs):
    import importlib, spil.util.caching as cm
    importlib.reload(cm)
    table = inputs.get('ftable') or []
    def F(*a, **k):
        # the uninterpreted function under the solver's model: results as the model assigns them, fresh tokens elsewhere
        names = sorted(k)
        for n, ns, vals, r in table:
            if n == len(a) and list(ns) == names and list(vals) == list(a) + [k[x] for x in names]: return r
        return 'F?' + repr((a, tuple(sorted(k.items()))))
    cm._max_size = max(1, int(inputs.get('max_size') or 1))
    w = getattr(cm, inputs['deco'])(F)
    res = []
    for a, k in inputs['calls']:
        try: r = w(*a, **k)
        except BaseException as e: res.append(('raise', type(e).__name__, str(e)[:100])); break
        res.append(('ret', r == F(*a, **k)))
    return res
def crosscheck(case, conc, exp):
    if case[0] != 'calls': return {'status': 'agree', 'note': 'no value-level outcome to compare for this case'}
    res = _native_calls(conc)
    got = {'eq': [r[1] for r in res if r[0] == 'ret'], 'raised': next((i for i, r in enumerate(res) if r[0] == 'raise'), None)}
    if got != exp: return {'status': 'diverged', 'input': conc, 'cpython': got, 'engine': exp}
    return {'status': 'agree'}
def replay(case, ob, inputs):
    if case is not None and case[0] == 'client':
        import subprocess, sys, json
        _, T1, T2, s_, order = case
        prog = ("import io,contextlib,json\n"
                "with contextlib.redirect_stdout(io.StringIO()):\n    import spil\n    from spil import Sid\n"
                f"x2 = Sid({T2 + ':' + s_!r})\n"
                + (f"a = Sid({s_!r}); b = Sid(x2)\n" if order == 'string-first' else f"b = Sid(x2); a = Sid({s_!r})\n")
                + "print(json.dumps([a.type, b.type]))\n")
        p = subprocess.run([sys.executable, '-c', prog], capture_output=True, text=True, cwd=W_REPO())
        out = p.stdout.strip().split('\n')[-1] if p.stdout.strip() else p.stderr[-300:]
        ok = out == json.dumps([T1, T2])
        return {'confirmed': not ok, 'call': f"history ({order}): Sid({s_!r}) and Sid(Sid({T2 + ':' + s_!r})) in one fresh process", 'observed': out[:300], 'expected': json.dumps([T1, T2]),
                'reproducer': prog}
    if case is not None and case[0] == 'client-unfold':
        import subprocess, sys, json
        from .c07 import py_den
        _, first, second = case
        prog = ("import io,contextlib,json\n"
                "with contextlib.redirect_stdout(io.StringIO()):\n    import spil\n    from spil.sid.read.tools import unfold_search\n"
                f"a = sorted(x.uri for x in unfold_search({first!r})); b = sorted(x.uri for x in unfold_search({second!r})); c = sorted(x.uri for x in unfold_search({first!r}))\n"
                "print(json.dumps([a, b, c]))\n")
        p = subprocess.run([sys.executable, '-c', prog], capture_output=True, text=True, cwd=W_REPO())
        out = p.stdout.strip().split('\n')[-1] if p.stdout.strip() else p.stderr[-300:]
        want = json.dumps([py_den(first), py_den(second), py_den(first)])
        return {'confirmed': out != want, 'call': f'unfold_search({first!r}); unfold_search({second!r}); unfold_search({first!r}) in one fresh process', 'observed': out[:400], 'expected': want[:400], 'reproducer': prog}
    if case is None or case[0] == 'scan':
        return {'confirmed': False, 'call': 'scan of cache-decorated functions and of the finder / getter classes', 'observed': repr(ob.get('info')), 'expected': 'only functions that do not read changing data are cached'}
    if case[0] == 'order':
        import subprocess, sys, json
        prog = ("import io,contextlib,sys,json\n"
                "with contextlib.redirect_stdout(io.StringIO()):\n    import spil\n    from spil import Sid\n    from spil.sid.read.tools import apply_unfolders\n"
                f"a = Sid({(inputs['x_type'] + ':' if inputs['x_type'] else '') + inputs['x_string']!r}); b = Sid({(inputs['y_type'] + ':' if inputs['y_type'] else '') + inputs['y_string']!r})\n"
                "r1 = apply_unfolders('q', [lambda s: [a, b]]); r2 = apply_unfolders('q', [lambda s: [b, a]])\n"
                "print(json.dumps([[x.uri for x in r1], [x.uri for x in r2]]))\n")
        outs = set()
        for seed in ('0', '1', '2', '3', '4', '5'):
            import os
            p = subprocess.run([sys.executable, '-c', prog], capture_output=True, text=True, env={**os.environ, 'PYTHONHASHSEED': seed}, cwd=W_REPO())
            outs.add(p.stdout.strip().split('\n')[-1])
        diff = len(outs) > 1 or any(json.loads(o)[0] != json.loads(o)[1] for o in outs if o.startswith('['))
        return {'confirmed': diff, 'call': 'apply_unfolders with the two Sids under 6 hash seeds and both insertion orders', 'observed': sorted(outs)[:4], 'expected': 'one order'}
    res = _native_calls(inputs)
    bad = [r for r in res if r[0] == 'raise' or r[1] is not True]
    return {'confirmed': bool(bad), 'call': f"{inputs['deco']}(F) called with {inputs['calls']!r}, _max_size={inputs.get('max_size')}", 'observed': repr(res), 'expected': 'every result == F(call), no exception',
            'reproducer': 'see contracts/c13.py:_native_calls'}
