"""
C19 -- template extrapolation gives every level of every hierarchy one well-named type.

Functions under contract (real source of spil/conf/util.py): extrapolate_templates, pattern_replacing.

oracle (written from the statement, independent of the code):
  result keeps every explicit type with its template, in their relative order;
  directly after each extrapolated type T (listed in to_extrapolate and configured), from the longest to the shortest proper '/'-prefix
  of T's template: if no type (explicit or already generated) owns that prefix as its template, and the name
  basetype(T) + separator + last-key(prefix) is not taken, that type is added; nothing else is added; no duplicate names / templates arise.
  pattern_replacing: the template of a type whose name contains no selector is left identical (frame); for a type that matches, the
  replacements of its selectors are applied in order.
Two families of cases:
  'sym'       type-, basetype- and key-NAMES are symbolic strings (non-empty, free of the syntax characters / : { } _); the coincidences the
              property names (a key name equal to the basetype name, equal keys in two hierarchies, a selector contained in a type name or not)
              arise as forks of the symbolic comparisons.  Proof for all names of the shape; the SHAPES (number of basetypes, chain lengths,
              which intermediate types are explicit) are enumerated: bounded, stated below.
  'concrete'  representative configurations of the property's grammar with names that contain each other ('shot__shot', 'asset__asset',
              'assettype' containing 'asset'), executed by the same interpreter on literal strings (bounded, exhaustive over the listed shapes).
"""
from __future__ import annotations
import itertools, z3
from pyvc.sstr import SStr, S, SBool, Var, simp, zb, OutsideSubset
from pyvc import interp as V
from pyvc.interp import PDict, PObj, Raised, Lazy, interleave
from . import common as C

PROPERTY = 'C19'
FUNCTIONS = {'spil/conf/util.py': ['extrapolate_templates', 'pattern_replacing']}
TRUSTED = ['collections.OrderedDict modelled as dict (insertion ordered)']
ASSUMPTIONS = ['requires: no two explicitly configured types have the same template (well-formed configuration)',
               "symbolic names are non-empty and free of '/', ':', '{', '}', '_' (the template syntax and the type separator); names containing '_' are covered by the concrete family",
               'within one hierarchy the key names are pairwise different and basetype names are pairwise different (a template repeats no key); every other coincidence between names is left open']
BOUNDED = ['shapes: 1-3 basetypes, chains of 2-5 keys (quick) / 2-9 keys for single chains (thorough), explicit intermediate types at the enumerated levels, optional shared first key between basetypes; names symbolic within a shape',
           'concrete family: the listed representative configurations']
EXPLANATION = 'extrapolate_templates / pattern_replacing against an oracle written from the statement; names symbolic per shape, shapes enumerated (bounded)'
BUDGET_S = {'quick': 600, 'thorough': 2400}
SEP = None

def sep(): return C.conf('sidtype_keytype_sep')

def shapes(tier):
    """a shape = list of hierarchies; hierarchy = (chain_length, explicit_levels (tuple of prefix lengths that are explicit types, besides the full one), extrapolate: bool, shares_first_key_with_previous: bool)"""
    out = []
    lens = (2, 3, 4) if tier == 'quick' else (2, 3, 4, 5, 7, 9)
    for n in lens:
        out.append([(n, (), True, False)])
        out.append([(n, (1,), True, False)])
        if n >= 3: out.append([(n, (n - 1,), True, False)]); out.append([(n, (1, 2), True, False)])
    out.append([(3, (), True, False), (3, (), True, True)])
    out.append([(3, (1,), True, False), (4, (1,), True, True)])
    out.append([(3, (), True, False), (2, (), False, True)])
    out.append([(2, (), True, False), (3, (), True, False), (2, (1,), True, True)])
    if tier == 'thorough':
        out.append([(4, (2,), True, False), (5, (1, 3), True, True), (3, (), True, True), (2, (), False, False)])
    return out

CONCRETE = [
    ({'shot__shot': '{project}/{type:s}/{sequence}/{shot}', 'shot': '{project}/{type:s}'}, ['shot__shot']),
    ({'asset__asset': '{project}/{type:a}/{assettype}/{asset}', 'asset': '{project}/{type:a}', 'project': '{project}'}, ['asset__asset']),
    ({'asset__file': '{project}/{type:a}/{assettype}/{asset}/{task}/{version}/{state}/{ext:scenes}', 'asset': '{project}/{type:a}', 'project': '{project}'}, ['asset__file']),
    ({'asset__version': '{project}/{type:a}/{assettype}/{asset}/{step}/{task}/{state}/{version}'}, ['asset__version']),
    ({'a_b__c_d': '{k_1}/{k_2}/{c_d}', 'x__y': '{k_1}/{z}/{y}'}, ['a_b__c_d', 'x__y']),
    ({'type__type': '{project}/{type}/{x}/{type2}', 'type': '{project}/{type}'}, ['type__type']),
    ({'shot__state': '{project}/{type:s}/{sequence}/{shot}/{task}/{version}/{state}', 'asset__state': '{project}/{type:a}/{assettype}/{asset}/{task}/{version}/{state}', 'shot': '{project}/{type:s}', 'asset': '{project}/{type:a}', 'project': '{project}'}, ['asset__state', 'shot__state']),
    ({'seq__shot': '{project}/{seq}/{shot}', 'seq__seq': '{project}/{seq}'}, ['seq__shot']),
    ({'b__k3': '{k1}/{k2}/{k3}'}, ['b__k3', 'missing__type']),
]

def cases(tier):
    cs = [('sym', i) for i in range(len(shapes(tier)))] + [('concrete', i) for i in range(len(CONCRETE))]
    cs += [('replace-frame', 0), ('replace-concrete', 0)]
    return cs

def name_var(st, hint):
    return st.fresh_str(hint, excl=set('/:{}_'), nonempty=True)

def build(it, st, shape):
    """symbolic configuration for a shape: returns (templates PDict, to_extrapolate list, spec_types list of (name, [keys], extrapolate))"""
    types = []; prev_first = None
    bnames = []
    for hi, (n, explicit, extra, share) in enumerate(shape):
        b = name_var(st, f'b{hi}_')
        for ob in bnames: st.assume(st.norm(b).z() != st.norm(ob).z())
        bnames.append(b)
        keys = []
        for j in range(n):
            if j == 0 and share and prev_first is not None: k = prev_first
            else: k = name_var(st, f'k{hi}{j}_')
            for ok in keys: st.assume(st.norm(k).z() != st.norm(ok).z())
            keys.append(k)
        prev_first = keys[0]
        full = it.concat([b, sep(), keys[-1]])
        types.append((full, keys, extra))
        for lv in explicit:
            nm = it.concat([b, sep(), keys[lv - 1]]) if lv > 1 else b       # the shortest explicit type is named like the basetype (as in the shipped configuration)
            types.append((nm, keys[:lv], False))
    return types

def tmpl(it, keys): return it.concat(interleave('/', [it.concat(['{', k, '}']) for k in keys]))

def oracle(it, st, types):
    """expected ordered list of (name, template) ; names/templates symbolic; comparisons through known_eq (forks consistent with the path)"""
    explicit = [(n, tmpl(it, ks)) for n, ks, _ in types]
    # a dict: a later explicit type with the same name replaces the earlier value (harness avoids it by construction of distinct names where needed)
    out = []
    def owned(t, upto):
        return any(it.known_eq(t, t2) for _, t2 in explicit) or any(it.known_eq(t, t2) for _, t2 in upto)
    def taken(n, upto):
        return any(it.known_eq(n, n2) for n2, _ in explicit) or any(it.known_eq(n, n2) for n2, _ in upto)
    for (n, ks, extra) in types:
        out.append((n, tmpl(it, ks)))
        if extra:
            base = st.split(st.norm(S(n)), '\0', -1)[0] if False else None
            nb = simp(V._s_split_multi(it, n, sep(), -1)[0]) if isinstance(n, SStr) else n.split(sep())[0]
            for L in range(len(ks) - 1, 0, -1):
                t = tmpl(it, ks[:L]); nm = it.concat([nb, sep(), ks[L - 1]])
                if owned(t, out): continue
                if taken(nm, out): continue
                out.append((nm, t))
    return out

def run(it, st, case):
    kind, i = case
    util = it.module('spil.conf.util')
    if kind == 'sym': return run_sym(it, st, util, shapes(it_tier(it))[i] if False else None, i)
    if kind == 'concrete': return run_concrete(it, st, util, *CONCRETE[i])
    if kind == 'replace-frame': return run_replace_frame(it, st, util)
    if kind == 'replace-concrete': return run_replace_concrete(it, st, util)

_TIER = 'quick'
def run_sym(it, st, util, _unused, i):
    import os
    tier = os.environ.get('PYVC_TIER', 'quick')
    shape = shapes(tier)[i]
    types = build(it, st, shape)
    if not st.feasible(): return 'ok'
    templates = PDict(); to_ex = []
    for n, ks, extra in types:
        it.dict_set(templates, n, tmpl(it, ks))
        if extra: to_ex.append(n)
    st.inputs['templates'] = PDict([(k, v) for k, v in templates.items]); st.inputs['to_extrapolate'] = list(to_ex)
    # the explicit types as the dict holds them (a repeated name keeps its first position and the last template)
    held = [(k, v, any(it.known_eq(k, e) for e in to_ex)) for k, v in templates.items]
    # requires: a well-formed configuration gives no two explicit types the same template
    for x in range(len(held)):
        for y in range(x + 1, len(held)):
            e = it.py_eq(held[x][1], held[y][1])
            if e is True: return 'skip'
            if e is not False: st.assume(z3.Not(e.z))
    if not st.feasible(): return 'skip'
    name = 'C19:conf.util.extrapolate_templates'
    try: r = it.call(util.ns['extrapolate_templates'], [templates, to_ex], {})
    except Raised as e:
        st.oblige(f'{name}:raises-nothing', False, ('C19',), info={'exception': V.exc_name(e)}); st.observed = {'raises': V.exc_name(e)}; return 'ok'
    st.observed = {'result': [[k, v] for k, v in r.items] if isinstance(r, PDict) else None}
    # oracle over the held dict
    exp = []
    def keys_of_template(t):
        parts = V._s_split(it, t, '/')
        return parts
    explicit = [(k, v) for k, v, _ in held]
    for k, v, extra in held:
        exp.append((k, v))
        if extra:
            nb = V._s_split_multi(it, k, sep(), -1)[0] if isinstance(k, SStr) else k.split(sep())[0]
            parts = V._s_split(it, v, '/')
            for L in range(len(parts) - 1, 0, -1):
                t = it.concat(interleave('/', parts[:L]))
                lastkey = parts[L - 1]
                lk = V._s_split(it, lastkey, ':')[0]
                lk = V._s_replace(it, V._s_replace(it, lk, '{', ''), '}', '')
                nm = it.concat([nb, sep(), lk])
                if any(it.known_eq(t, t2) for _, t2 in explicit) or any(it.known_eq(t, t2) for _, t2 in exp): continue
                if any(it.known_eq(nm, n2) for n2, _ in explicit) or any(it.known_eq(nm, n2) for n2, _ in exp): continue
                exp.append((nm, t))
    got = [(k, v) for k, v in r.items] if isinstance(r, PDict) else None
    ok = got is not None and len(got) == len(exp)
    st.oblige(f'{name}:adds-exactly-the-unowned-prefix-types-in-order', it.conj([it.py_eq(a, c) for (a, _), (c, _) in zip(got, exp)] + [it.py_eq(b, d) for (_, b), (_, d) in zip(got, exp)]) if ok else False, ('C19',),
              info={'got': repr(got)[:300], 'want': repr(exp)[:300]})
    if got is not None:
        dup = False
        for x in range(len(got)):
            for y in range(x + 1, len(got)):
                if it.known_eq(got[x][1], got[y][1]): dup = True
        st.oblige(f'{name}:no-duplicate-templates', not dup, ('C19',))
    st.oblige(f'{name}:argument-unchanged', len(templates.items) == len(held) and all(a[0] is b[0] and a[1] is b[1] for a, b in zip(templates.items, held)), ('C19',))
    return 'ok'

def py_oracle(templates, to_ex, sp):
    exp = []
    for k, v in templates.items():
        exp.append((k, v))
        if k in to_ex:
            nb = k.split(sp)[0]; parts = v.split('/')
            for L in range(len(parts) - 1, 0, -1):
                t = '/'.join(parts[:L]); lk = parts[L - 1].split(':')[0].replace('{', '').replace('}', ''); nm = nb + sp + lk
                if t in templates.values() or t in [b for _, b in exp]: continue
                if nm in templates or nm in [a for a, _ in exp]: continue
                exp.append((nm, t))
    return exp

def run_concrete(it, st, util, templates, to_ex):
    name = 'C19:conf.util.extrapolate_templates'
    st.inputs['templates'] = dict(templates); st.inputs['to_extrapolate'] = list(to_ex)
    d = PDict([(k, v) for k, v in templates.items()])
    try: r = it.call(util.ns['extrapolate_templates'], [d, list(to_ex)], {})
    except Raised as e:
        st.oblige(f'{name}:raises-nothing', False, ('C19',), info={'exception': V.exc_name(e)}); st.observed = {'raises': V.exc_name(e)}; return 'ok'
    got = [(simp(st.norm(k)) if isinstance(k, SStr) else k, simp(st.norm(v)) if isinstance(v, SStr) else v) for k, v in r.items]
    st.observed = {'result': [[k, v] for k, v in got]}
    exp = py_oracle(templates, to_ex, sep())
    st.oblige(f'{name}:adds-exactly-the-unowned-prefix-types-in-order', got == exp, ('C19',), info={'got': repr(got)[:400], 'want': repr(exp)[:400]})
    st.oblige(f'{name}:no-duplicate-templates', len({v for _, v in got}) == len(got), ('C19',))
    return 'ok'

def run_replace_frame(it, st, util):
    """types whose name contains no selector keep their template (object identity); selectors and names symbolic"""
    name = 'C19:conf.util.pattern_replacing'
    n1 = name_var(st, 'ty'); n2 = it.concat([name_var(st, 'tz'), sep(), name_var(st, 'tk')])
    t1 = tmpl(it, [name_var(st, 'ka'), name_var(st, 'kb')]); t2 = tmpl(it, [name_var(st, 'kc')])
    m = st.fresh_str('sel', excl=set('/:{}'), nonempty=True)
    find = it.concat(['{', name_var(st, 'kf'), '}']); rep = '{X:y}'
    templates = PDict([(n1, t1), (n2, t2)]); kp = PDict([(m, PDict([(find, rep)]))])
    st.inputs.update({'templates': PDict([(n1, t1), (n2, t2)]), 'key_patterns': PDict([(m, PDict([(find, rep)]))])})
    try: it.call(util.ns['pattern_replacing'], [templates, kp], {})
    except Raised as e:
        st.oblige(f'{name}:raises-nothing', False, ('C19',), info={'exception': V.exc_name(e)}); st.observed = {'raises': V.exc_name(e)}; return 'ok'
    except OutsideSubset as e:
        if 'replace' in str(e): st.observed = {'note': 'matched type: symbolic replace'}; return 'ok'      # a matched type: its content is covered by the concrete family
        raise
    st.observed = {'result': [[k, v] for k, v in templates.items]}
    for (k, v), (k0, v0) in zip(templates.items, [(n1, t1), (n2, t2)]):
        matched = it.contains(k0, m)
        if not it.st.branch(matched if isinstance(matched, (bool, SBool)) else it.truthy(matched), 'spec:selector-in-name'):
            st.oblige(f'{name}:unselected-type-keeps-its-template', it.py_eq(v, v0), ('C19',))
    st.oblige(f'{name}:type-names-and-order-unchanged', len(templates.items) == 2 and templates.items[0][0] is n1 and templates.items[1][0] is n2, ('C19',))
    return 'ok'

REPL = ({'asset__file': '{project}/{type:a}/{task}/{state}', 'shot__file': '{project}/{type:s}/{task}/{state}', 'project': '{project}', 'xyz': '{project}/{task}/{state}', 'shot': '{project}/{type:s}/{task}'},      # bare types (no separator in the name) whose templates carry keys that only the '__' / 'shot__' selectors rewrite
        {'__': {'{state}': '{state:(w|p)}'}, 'asset__': {'{task}': '{task:(art|rig)}'}, 'shot__': {'{task}': '{task:(anim|fx)}'}, 't': {'{project}': '{project:(hamlet)}', '{type:a}': '{type:(a)}'}})
def py_replace(templates, kp):
    out = dict(templates)
    for ty, t in templates.items():
        for m, d in kp.items():
            if m in ty:
                for f, r in d.items(): t = t.replace(f, r)
        out[ty] = t
    return out
def run_replace_concrete(it, st, util):
    name = 'C19:conf.util.pattern_replacing'
    templates, kp = REPL
    st.inputs.update({'templates': dict(templates), 'key_patterns': {k: dict(v) for k, v in kp.items()}})
    d = W_conv(templates); k = W_conv(kp)
    try: it.call(util.ns['pattern_replacing'], [d, k], {})
    except Raised as e:
        st.oblige(f'{name}:raises-nothing', False, ('C19',), info={'exception': V.exc_name(e)}); st.observed = {'raises': V.exc_name(e)}; return 'ok'
    got = {kk: (simp(st.norm(v)) if isinstance(v, SStr) else v) for kk, v in d.items}
    st.observed = {'result': [[a, b] for a, b in got.items()]}
    st.oblige(f'{name}:selected-types-get-the-replacements-others-identical', got == py_replace(templates, kp) and list(got) == list(templates), ('C19',), info={'got': repr(got)[:400]})
    return 'ok'
def W_conv(v):
    from pyvc.world import conv
    return conv(v)
def it_tier(it): return 'quick'

# ------------------------------------------------------------------ native side
def crosscheck(case, conc, exp):
    from spil.conf import util
    kind = case[0]
    try:
        if kind in ('sym', 'concrete'):
            r = util.extrapolate_templates(dict(conc['templates']), list(conc['to_extrapolate'])); got = {'result': [[k, v] for k, v in r.items()]}
        else:
            if 'note' in exp: return {'status': 'agree', 'note': 'matched symbolic type: not compared'}
            t = dict(conc['templates']); util.pattern_replacing(t, {k: dict(v) for k, v in conc['key_patterns'].items()}); got = {'result': [[k, v] for k, v in t.items()]}
    except BaseException as e: got = {'raises': type(e).__name__}
    if got != exp: return {'status': 'diverged', 'input': conc, 'cpython': got, 'engine': exp}
    return {'status': 'agree'}

def replay(case, ob, inputs):
    from spil.conf import util
    kind = case[0]
    if kind in ('sym', 'concrete'):
        t, ex = dict(inputs['templates']), list(inputs['to_extrapolate'])
        r = C.call_native(util.extrapolate_templates, dict(t), ex)
        want = py_oracle(t, ex, sep())
        ok = r[0] == 'ret' and list(r[1].items()) == want
        return {'confirmed': not ok, 'call': f'extrapolate_templates({t!r}, {ex!r})', 'observed': repr(list(r[1].items()) if r[0] == 'ret' else r)[:500], 'expected': repr(want)[:500],
                'reproducer': f'from spil.conf.util import extrapolate_templates; print(dict(extrapolate_templates({t!r}, {ex!r})))'}
    t = dict(inputs['templates']); kp = {k: dict(v) for k, v in inputs['key_patterns'].items()}
    t2 = dict(t); r = C.call_native(util.pattern_replacing, t2, kp)
    want = py_replace(t, kp)
    ok = r[0] == 'ret' and t2 == want and list(t2) == list(t)
    return {'confirmed': not ok, 'call': f'pattern_replacing({t!r}, {kp!r})', 'observed': repr(t2)[:400], 'expected': repr(want)[:400]}
