"""
C17 -- an interrupted attribute write leaves the old or the new data, never a ruin.

Functions under contract (real source): write_paths._write_data, WriteToPaths.set / update, getter_paths.GetFromPaths.get_data,
  spil_data_conf.get_data_json_path.
Ghost state: pyvc.fsmodel file system; the primitives carry their crash semantics as ASSUMED contracts:
  Path.write_text(t): truncate -> (any proper prefix of t) -> t ;  os.replace atomic ;  mkdir / touch atomic ;  reads have no effect.
method    the real _write_data is executed on an arbitrary existing entity (file or folder path of every template with a path) whose sidecar is
          absent (first write) or holds an arbitrary document (overwrite); its effect trace is recorded; for EVERY prefix of the trace (crash
          before / after each effect, including inside the write) the file-system state is rebuilt and
ensures   (1) the real GetFromPaths.get_data on that state returns the complete previous data or the complete new data (plus 'sid'), raises nothing
          (2) the real _write_data on that state raises nothing (the next set / update succeeds)
          (3) no path other than the sidecar (and a temporary next to it) differs from the initial state
          tolerant read: for a sidecar that is unreadable, not valid JSON, empty or a directory, get_data returns just the 'sid' entry and raises nothing.
"""
from __future__ import annotations
import z3
from pyvc.sstr import SStr, S, SBool, Var, simp, zb, OutsideSubset
from pyvc import interp as V
from pyvc.interp import PDict, PObj, PClass, Raised, Lazy, interleave, PBuiltin
from pyvc import world as W, fsmodel as FS
from . import common as C
from .c05 import assume_concrete, path_types, configs

PROPERTY = 'C17'
FUNCTIONS = {'spil/sid/pathops/write_paths.py': ['_write_data', 'WriteToPaths.update', 'WriteToPaths.set'], 'spil/sid/pathops/getter_paths.py': ['GetFromPaths.get_data'],
             'spil_hamlet_conf/spil_data_conf.py': ['get_data_json_path']}
TRUSTED = ['pathlib / os / json primitives with the crash semantics stated above (assumed contracts of the effect model)', 'json.dumps/json.load are inverse on the written documents (assumed)']
ASSUMPTIONS = ['one concrete example Sid per template (the write / read code only uses the Sid to obtain its path); the stored document and the written pair are symbolic',
               'a kernel or file-system behaviour outside these primitive contracts (e.g. torn renames, lost directory entries after power loss) is outside the proof',
               'the stored document is abstract: an arbitrary mapping with two symbolic entries (first write: absent); the written data is one symbolic pair']
BOUNDED = ['one concrete example Sid per template; crash points are every prefix of the recorded effect trace of one write (first write / overwrite); sidecar fault classes enumerated (invalid, null, directory, unreadable)']
EXPLANATION = 'crash-point invariant over the recorded effect trace of the real _write_data, for every template with a path; tolerant read over the sidecar fault classes'
BUDGET_S = {'quick': 900, 'thorough': 2400}

def cases(tier):
    cs = []
    c = configs()[0]
    types = path_types(c)
    sub = types
    for T in sub:
        cs.append(('crash', T, c, 'first')); cs.append(('crash', T, c, 'overwrite'))
        for fault in ('invalid', 'unreadable', 'directory', 'null'): cs.append(('read', T, c, fault))
    return cs

def setup(it, st, T, c, sidecar):
    fs = W.install_fs(it)
    # the crash argument does not depend on the field values: one concrete example Sid per template (paths and sidecar names are then literal)
    x, vals = C.mk_concrete(it, T)
    st.inputs['type'] = T; st.inputs['values'] = [v for _, v in vals]
    p = it.call(it.getattr(x, 'path'), [c], {})
    if p is None: return None
    ps = it.to_str(p)
    wp = it.module('spil.sid.pathops.write_paths')
    gdjp = it.resolve(it.module('spil.conf').ns['get_data_json_path'])
    dp = it.to_str(it.call(gdjp, [p], {}))
    k0, v0, k1, v1 = (st.fresh_str(h, nonempty=True) for h in ('dk0_', 'dv0_', 'dk1_', 'dv1_'))
    st.assume(st.norm(k0).z() != st.norm(k1).z())
    for k in (k0, k1): st.assume(st.norm(k).z() != z3.StringVal('sid'))
    D0 = PDict([(k0, v0), (k1, v1)])
    known = {}
    def initial(path):
        if it.known_eq(path, ps): return ('file' if it.is_true(it.getattr(p, 'suffix'), 'spec:has-suffix') else 'dir', FS.INVALID)
        if it.known_eq(path, dp):
            return {'absent': ('absent', None), 'doc': ('file', FS.Json(FS.deep_copy(D0))), 'invalid': ('file', FS.INVALID), 'unreadable': ('file', FS.UNREADABLE),
                    'directory': ('dir', None), 'null': ('file', FS.Json(None))}[sidecar]
        # ancestors of the entity exist; everything else is absent
        pn = st.norm(S(ps)); qn = st.norm(S(path))
        if len(qn.atoms) <= len(pn.atoms) and all((a == b if isinstance(a, str) else (isinstance(b, Var) and a.name == b.name)) for a, b in zip(qn.atoms[:-1], pn.atoms)) : pass
        return ('dir', None) if _is_ancestor(it, path, ps) else ('absent', None)
    fs.initial_choices = initial
    return fs, x, p, ps, dp, D0, wp

def _is_ancestor(it, a, b):
    an = it.st.norm(S(a)); bn = it.st.norm(S(b))
    sa = ''.join(x if isinstance(x, str) else '\0' + x.name + '\0' for x in an.atoms); sb = ''.join(x if isinstance(x, str) else '\0' + x.name + '\0' for x in bn.atoms)
    return sb.startswith(sa + '/')

def doc_eq(it, got, want_items, sid_uri):
    """got (PDict) == want_items + {'sid': uri}; a stored key that is itself 'sid' gives way to the entry of the Sid that is read"""
    if not isinstance(got, PDict): return False
    want = [(k, v) for k, v in want_items if not it.known_eq(k, 'sid')] + [('sid', sid_uri)]
    if len(got.items) != len(want): return False
    cs = []
    for k, v in want:
        hit = [gv for gk, gv in got.items if it.py_eq(gk, k) is True]
        if not hit: return False
        cs.append(it.py_eq(hit[0], v))
    return it.conj(cs)

def apply_effects(fs, initial, effects):
    fs.restore(initial)
    for e in effects:
        if e[0] in ('mkdir',): fs.set(e[1], 'dir')
        elif e[0] == 'touch': fs.set(e[1], 'file', FS.INVALID)
        elif e[0] == 'truncate': fs.set(e[1], 'file', FS.INVALID)
        elif e[0] == 'partial-write': fs.set(e[1], 'file', FS.INVALID)
        elif e[0] == 'write-complete': fs.set(e[1], 'file', e[2])
        elif e[0] == 'replace':
            n = fs.state(e[1]); fs.set(e[2], n[1], n[2]); fs.set(e[1], 'absent')
        elif e[0] == 'unlink': fs.set(e[1], 'absent')
        elif e[0] == 'copy': fs.set(e[1], 'file', FS.INVALID)

def getter(it, c):
    gp = it.module('spil.sid.pathops.getter_paths'); G = gp.ns['GetFromPaths']
    g = PObj(G); g.attrs['config'] = c; g.attrs['finder'] = None
    return g

def run(it, st, case):
    kind, T, c, mode = case
    # FindInPaths is only constructed, never used, by GetFromPaths.__init__ ; the getter object is built directly
    it.module('spil').ns['FindInPaths'] = PClass('FindInPaths', [V.OBJECT])
    r = setup(it, st, T, c, {'first': 'absent', 'overwrite': 'doc'}.get(mode, mode))
    if r is None: return 'skip'
    fs, x, p, ps, dp, D0, wp = r
    uri = it.to_str(x)       # default sid_encode is str
    g = getter(it, c)
    if kind == 'read':
        name = 'C17:GetFromPaths.get_data'
        try: d = it.call(it.getattr(g, 'get_data'), [x], {})
        except Raised as e:
            st.oblige(f'{name}:damaged-sidecar-raises-nothing', False, ('C17', 'C16'), info={'exception': V.exc_name(e), 'sidecar': mode}); st.observed = {}; return 'ok'
        st.oblige(f'{name}:damaged-sidecar-gives-just-the-sid-entry', doc_eq(it, d, [], uri), ('C17', 'C16'), info={'sidecar': mode, 'got': repr(d)[:200]})
        st.observed = {}
        return 'ok'
    # ---- crash points
    wk, wv = st.fresh_str('wk_', nonempty=True), st.fresh_str('wv_', nonempty=True)
    st.assume(st.norm(wk).z() != z3.StringVal('sid'))
    data = PDict([(wk, wv)])
    old_items = [] if mode == 'first' else [(k, v) for k, v in D0.items]
    new_items = [[k, v] for k, v in old_items]
    hit = [kv for kv in new_items if it.known_eq(kv[0], wk)]
    if hit: hit[0][1] = wv
    else: new_items.append([wk, wv])
    fs.state(ps); fs.state(dp)
    initial = fs.snapshot(); fs.trace = []
    name = 'C17:write_paths._write_data'
    try: ok = it.call(wp.ns['_write_data'], [p, data], {})
    except Raised as e:
        st.oblige(f'{name}:raises-nothing-on-a-healthy-file-system', False, ('C17', 'C15'), info={'exception': V.exc_name(e)}); st.observed = {}; return 'ok'
    trace = list(fs.trace); final = fs.snapshot()
    st.oblige(f'{name}:writes-the-overlay-and-reports-success', ok is True and doc_eq(it, _read(it, fs, g, x), new_items, uri), ('C17', 'C15'))
    st.inputs['trace'] = [e[0] for e in trace]
    for k in range(len(trace) + 1):
        apply_effects(fs, initial, trace[:k])
        crash = fs.snapshot()
        where = f'crash-after-{k}-of-{len(trace)}-effects'
        try: d = it.call(it.getattr(g, 'get_data'), [x], {})
        except Raised as e:
            st.oblige(f'C17:crash:later-read-raises-nothing', False, ('C17',), info={'where': where, 'exception': V.exc_name(e)}); continue
        st.oblige('C17:crash:later-read-returns-the-complete-old-or-the-complete-new-data', it.disj([doc_eq(it, d, old_items, uri), doc_eq(it, d, new_items, uri)]), ('C17',),
                  info={'where': where, 'effects_done': [e[0] for e in trace[:k]], 'got': repr(d)[:200]})
        # other paths untouched
        others_ok = all(it.py_eq(q, dp) is True or _is_tmp_of(it, q, dp) for q in fs.changed_since(initial))
        st.oblige('C17:crash:only-the-sidecar-of-this-entity-is-touched', others_ok, ('C17', 'C15'), info={'where': where})
        fs.restore(crash); fs.trace = []
        w2 = PDict([(wk, wv)])          # the same pair again: no new case split on key equality
        try: it.call(wp.ns['_write_data'], [p, w2], {}); again = True
        except Raised as e: again = V.exc_name(e)
        st.oblige('C17:crash:the-next-write-succeeds', again is True, ('C17',), info={'where': where, 'effects_done': [e[0] for e in trace[:k]], 'exception': again})
    fs.restore(final)
    st.observed = {'effects': len(trace)}
    return 'ok'

def _is_tmp_of(it, path, dp):
    pn = it.st.norm(S(path)); dn = it.st.norm(S(dp))
    return len(pn.atoms) >= len(dn.atoms) and all((a == b if isinstance(a, str) and i < len(dn.atoms) - 1 else True) for i, (a, b) in enumerate(zip(pn.atoms, dn.atoms))) and _is_sibling_prefix(it, pn, dn)
def _is_sibling_prefix(it, pn, dn):
    sa = ''.join(x if isinstance(x, str) else '\0' + x.name + '\0' for x in pn.atoms); sb = ''.join(x if isinstance(x, str) else '\0' + x.name + '\0' for x in dn.atoms)
    return sa.startswith(sb) and '/' not in sa[len(sb):]
def _read(it, fs, g, x):
    try: return it.call(it.getattr(g, 'get_data'), [x], {})
    except Raised: return None

def crosscheck(case, conc, exp): return {'status': 'agree', 'note': 'effect model: replayed natively only for refuted obligations'}

def replay(case, ob, inputs):
    """native replay with a real temporary tree: the write is interrupted by making Path.write_text stop after truncation / after a prefix"""
    import tempfile, json, pathlib, shutil, os
    from .c03 import native_sid
    kind, T, c, mode = case
    from spil.sid.pathops import write_paths
    from spil.conf import get_data_json_path
    x = native_sid(inputs['type'], inputs['values'])
    p = x.path(c)
    if p is None: return {'confirmed': False, 'call': 'no path'}
    tmp = pathlib.Path(tempfile.mkdtemp())
    try:
        ent = tmp / 'entity' / ('e' + (p.suffix if p.suffix.isprintable() and '\0' not in p.suffix else '')); ent.parent.mkdir(parents=True); (ent.touch() if p.suffix else ent.mkdir())
        side = get_data_json_path(ent)
        if kind == 'read':
            if mode == 'invalid': side.write_text('{"a": ')
            elif mode == 'null': side.write_text('null')
            elif mode == 'directory': side.mkdir()
            elif mode == 'unreadable': side.write_text('{}'); side.chmod(0)
            r = C.call_native(_native_read, side, ent)
            if mode == 'unreadable': side.chmod(0o600)
            return {'confirmed': r[0] != 'ret' or r[1] != {}, 'call': f'read of a {mode} sidecar', 'observed': repr(r)[:200], 'expected': '{} (+ sid)'}
        old = {'a': 1, 'b': 2} if mode == 'overwrite' else None
        if old is not None: side.write_text(json.dumps(old))
        new = dict(old or {}, b=3)
        outcomes = []
        orig = pathlib.Path.write_text
        for cut in (0, 5):
            if old is not None: side.write_text(json.dumps(old))
            elif side.exists(): side.unlink()
            def broken(self, text, *a, **k):
                with open(self, 'w') as f: f.write(text[:cut])
                raise KeyboardInterrupt('crash')
            pathlib.Path.write_text = broken
            try:
                try: write_paths._write_data(ent, {'b': 3})
                except KeyboardInterrupt: pass
            finally: pathlib.Path.write_text = orig
            r = C.call_native(_native_read, side, ent)
            again = C.call_native(write_paths._write_data, ent, {'c': 4})
            outcomes.append({'cut': cut, 'read': repr(r)[:120], 'read_ok': r[0] == 'ret' and r[1] in ((old or {}), new), 'next_write': again[0] == 'ret'})
        # the process dies immediately BEFORE the k-th file-system effect of the write (every effect point of the real function, found by counting)
        import os as _os
        targets = [(pathlib.Path, 'write_text'), (pathlib.Path, 'unlink'), (pathlib.Path, 'rename'), (pathlib.Path, 'replace'), (_os, 'replace'), (_os, 'rename'), (_os, 'unlink'), (_os, 'remove')]
        def run_with_crash_before(k):
            count = [0]; saved = [(o, n, getattr(o, n)) for o, n in targets]
            def wrap(f):
                def g(*a, **kw):
                    if g.depth == 0:
                        count[0] += 1
                        if k is not None and count[0] == k: raise KeyboardInterrupt('crash')
                    g.depth += 1
                    try: return f(*a, **kw)
                    finally: g.depth -= 1
                g.depth = 0; return g
            shared = wrap(lambda: None)
            for o, n, f in saved:
                w = wrap(f); setattr(o, n, w)
            try:
                try: write_paths._write_data(ent, {'b': 3})
                except KeyboardInterrupt: pass
            finally:
                for o, n, f in saved: setattr(o, n, f)
            return count[0]
        def reset():
            for q in side.parent.glob('.*'):
                if q != side and q.is_file(): q.unlink()
            if old is not None: side.write_text(json.dumps(old))
            elif side.exists(): side.unlink()
        reset(); n_effects = run_with_crash_before(None)
        for k in range(1, min(n_effects, 12) + 1):
            reset(); run_with_crash_before(k)
            r = C.call_native(_native_read, side, ent)
            again = C.call_native(write_paths._write_data, ent, {'c': 4})
            outcomes.append({'crash-before-effect': k, 'read': repr(r)[:120], 'read_ok': r[0] == 'ret' and r[1] in ((old or {}), new), 'next_write': again[0] == 'ret'})
        reset()
        # a temporary file left behind by an earlier crash (any name the writer would use next to the sidecar) must not make the next write fail
        if old is not None: side.write_text(json.dumps(old))
        elif side.exists(): side.unlink()
        for stale in (side.with_name(side.name + '.tmp'),):
            stale.write_text('{"b": ')
            again = C.call_native(write_paths._write_data, ent, {'b': 3})
            r = C.call_native(_native_read, side, ent)
            outcomes.append({'stale-temp-file': stale.name, 'read': repr(r)[:120], 'read_ok': r[0] == 'ret' and r[1] == new, 'next_write': again[0] == 'ret' and again[1] is True})
        bad = [o for o in outcomes if not (o['read_ok'] and o['next_write'])]
        return {'confirmed': bool(bad), 'call': 'real _write_data interrupted inside Path.write_text (after truncation / after 5 bytes), then get_data-like read and another _write_data; then a write with a stale temporary file present', 'observed': repr(outcomes)[:500], 'expected': 'old or new data; next write succeeds'}
    finally: shutil.rmtree(tmp, ignore_errors=True)

def _native_read(side, ent):
    import json
    data = {}
    if side.exists():
        try:
            with side.open() as f: data = json.load(f) or {}
        except OSError: pass
        except json.JSONDecodeError: pass
    return data
