"""
C07 -- a search expression unfolds to exactly the typed searches its syntax denotes.

Functions under contract (real source, inlined): read.tools.unfold_search / apply_unfolders (through the real lru_kw_cache closure),
  unfolders.extensions.execute / extensions / handle_extension, unfolders.or_op.execute / or_op / or_on_path / or_on_query,
  unfolders.expand.execute, core.utils.expand / simple_typing, unfolders.typed_narrow.execute / type_narrow,
  and what they reach: Sid(), sid_to_dicts, get_with, apply_query, resolva.

oracle den(s), written from the statement (independent of the code):
  split the query off; expand aliases in the last segment and in an `ext` filter; distribute every ',' of a segment (cartesian product) and of a
  query value; a plain string without '**' takes every template that accepts it; a single '/**' stands for the number of '/*' that completes the
  string to each leaf template (one ending in the basetype's leaf key), keeping the templates whose last key is the leaf key; every typed search is
  narrowed by its basetype's configured query; a trailing filter is applied to each typed search by C04's decision table, those it does not fit are dropped.
ensures   set(unfold_search(s)) == den(s) as sets of (type, fields); no duplicates; every result typed and '?'-free; nothing raises ...
          ... except SpilException, and only for more than one '**' or an untypable root before '**'; junk / untypable searches give [].
Bound (B): the SHAPES of s are enumerated (below); inside a shape every value is a symbolic string under its pattern.
"""
from __future__ import annotations
import itertools, z3
from pyvc.sstr import SStr, S, SBool, Var, simp, zb, OutsideSubset, pattern_re
from pyvc import interp as V
from pyvc.interp import PDict, PObj, Raised, Lazy, interleave
from . import common as C
from .c04 import types_of

PROPERTY = 'C07'
FUNCTIONS = {'spil/sid/read/tools.py': ['unfold_search', 'apply_unfolders'], 'spil/sid/read/unfolders/extensions.py': ['execute', 'extensions', 'handle_extension'],
             'spil/sid/read/unfolders/or_op.py': ['execute', 'or_op', 'or_on_path', 'or_on_query'], 'spil/sid/read/unfolders/expand.py': ['execute'],
             'spil/sid/core/utils.py': ['expand', 'simple_typing'], 'spil/sid/read/unfolders/typed_narrow.py': ['execute', 'type_narrow'],
             'spil/sid/core/query_helper.py': ['apply_query', 'update', 'to_dict', 'to_string'], 'spil/sid/core/sid_resolver.py': ['sid_to_dicts', 'sid_to_dict', 'dict_to_type', 'dict_to_sid']}
TRUSTED = ['resolva interpreted from source; re / urllib models; string.Formatter().parse on literal template text (executed natively)']
ASSUMPTIONS = ["values inside a shape are concrete-looking: non-empty, free of the search and query syntax characters (* > < , ? & = : ~ blank); free-text names range over [A-Za-z0-9_.-]+ (alternatives are stripped of whitespace by the unfolders) -- search symbols, lists and aliases are placed by the shape",
               'sets of Sids are compared through the real __eq__ (uri equality, C14)']
BOUNDED = ['shapes per template: all values; one * at each position; a two-element comma list at each position; an alias in the last segment (leaf types); /** replacing every proper tail; /** in the middle before the last segment; '
           'one query filter on an existing key with a value / list / alias; malformed: two **, untypable root, junk, untypable with query. Two comma lists and two filters only in the thorough tier.']
EXPLANATION = 'unfold_search against an independent denotation oracle on enumerated search shapes with symbolic contents'
BUDGET_S = {'quick': 1500, 'thorough': 2400}
NAME_RE = '[A-Za-z0-9_.\\-]+'
SYNTAX = set('*><,?&=:~ \t\n\r/#%+;')

CONCRETE = ['hamlet/a/char/x/art/v001/p/ma, maya', 'hamlet/a/char/x/art/v001/p/maya , mov', 'hamlet/a/char/x/art/v001/p/*?ext=mov, maya', 'hamlet/s/sq010/sh0010/anim/v001/w/**/ma, cache', 'blabla/x?project=hamlet', 'hamlet/a/char/x/art/v001/p/hou?project=hamlet', 'hamlet/a/char/x/art/v001/p/ma,zzz?project=*', 'hamlet/a/char/foo--start--/model,rig', 'hamlet/a/char,prop/--start--', 'hamlet/s/sq010/sh0010/**/maya?state=w', 'hamlet/a,s/**/cache,movie', 'hamlet/*/**', 'blabla?foo=bar', 'hamlet/a/char/x y ,z/model']
def leaf_key(T):
    base = T.split(C.conf('sidtype_keytype_sep'))[0]
    return C.conf('leaf_keys').get(base)
def is_leaf_type(T): return isinstance(T, str) and T in C.spec_templates() and C.keys_of(T)[-1] == leaf_key(T)
def aliases_for(T):
    pat = C.spec_templates()[T][-1][1]; import re
    return [a for a in C.conf('extension_alias') if re.fullmatch(pat, a)]

def cases(tier):
    spec = C.spec_templates(); cs = []
    thorough = tier == 'thorough'
    for T in spec:
        n = len(spec[T]); small = n <= 5
        cs.append(('plain', T, ()))
        for i in (range(n) if thorough else sorted({0, n - 1}) if small else [n - 1]): cs.append(('star', T, (i,)))
        for i in (range(n) if thorough else sorted({0, n - 1}) if small else [0]): cs.append(('list', T, (i,)))      # the first segment is handled apart by or_on_path (its start marker)
        if is_leaf_type(T):
            for a in aliases_for(T)[:1 if not thorough else 9]: cs.append(('alias', T, a))
            for i in (range(1, n) if thorough else [2]): cs.append(('tail**', T, i))
            if n >= 3:
                for i in (range(1, n - 1) if thorough else [n - 2]): cs.append(('mid**', T, i))
        ks = C.keys_of(T)
        for k in (ks if thorough else ks[-1:] if small else []): cs.append(('filter', T, k))
        if thorough and n >= 2: cs.append(('list2', T, (0, n - 1)))
    if not thorough:
        for T in [t for t in spec if is_leaf_type(t)][:2]: cs.append(('filter', T, C.keys_of(T)[-1])); cs.append(('filter', T, C.keys_of(T)[0]))      # a filter on the first key meets an alias value in the last segment
    cs += [('malformed', 'two**'), ('malformed', 'root'), ('malformed', 'junk'), ('malformed', 'junk-query'), ('malformed', 'empty')]
    cs += [('concrete', x) for x in CONCRETE]
    return cs

def values(it, st, T, tag='v'):
    out = []
    for key, pat in C.spec_templates()[T]:
        v = st.fresh_str(f'{tag}_{key}', excl=set('/'), pattern=pat, nonempty=True)
        for a in st.norm(v).atoms:
            if isinstance(a, Var):
                st.excl.setdefault(a.name, set()).update(SYNTAX - {'/'})
                if a.name not in st.domain and pat == '[^/]*':
                    st.assume(z3.InRe(a.z, pattern_re(NAME_RE)[0]))          # free-text names: a word alphabet (no whitespace of any kind, no syntax characters)
        out.append(v)
    return out

def value_at(it, st, T, i, tag):
    key, pat = C.spec_templates()[T][i]
    v = st.fresh_str(f'{tag}_{key}', excl=set('/'), pattern=pat, nonempty=True)
    for a in st.norm(v).atoms:
        if isinstance(a, Var):
            st.excl.setdefault(a.name, set()).update(SYNTAX - {'/'})
            if a.name not in st.domain and pat == '[^/]*': st.assume(z3.InRe(a.z, pattern_re(NAME_RE)[0]))
    return v
def build(it, st, case):
    """returns (search string, alternatives: list of segment lists BEFORE typing (aliases expanded, lists distributed, ** kept as marker), query pairs)"""
    kind, T = case[0], case[1]
    vs = values(it, st, T)
    n = len(vs); segs = [[v] for v in vs]        # each position: list of alternatives
    text = list(vs); star = None; query = []; qtext = None
    if kind == 'star':
        for i in case[2]: segs[i] = ['*']; text[i] = '*'
    elif kind in ('list', 'list2'):
        for i in case[2]:
            w = value_at(it, st, T, i, f'w{i}')
            segs[i] = [vs[i], w]; text[i] = it.concat([vs[i], ',', w])
    elif kind == 'alias':
        a = case[2]; members = C.conf('extension_alias')[a]
        segs[-1] = sorted(set(members)); text[-1] = a
    elif kind == 'tail**':
        i = case[2]; segs = segs[:i] + ['**']; text = text[:i] + ['**']
    elif kind == 'mid**':
        i = case[2]; segs = segs[:i] + ['**'] + segs[-1:]; text = text[:i] + ['**'] + text[-1:]
    elif kind == 'filter':
        k = case[2]; i = C.keys_of(T).index(k)
        w = value_at(it, st, T, i, 'f')
        segs[i] = ['*']; text[i] = '*'
        query = [(k, [w])]; qtext = it.concat([k, '=', w])
    s = it.concat(interleave('/', text))
    if qtext is not None: s = it.concat([s, '?', qtext])
    return s, segs, query

def accepts_cond(it, st, T, segs):
    conds = C.accepts(st, T, segs)
    if any(c is False for c in conds): return False
    return it.conj(conds)

def den(it, st, segs, query):
    """oracle: list of (type, [(key, value)]) -- typed searches denoted by the alternatives `segs` (+ query filters)"""
    spec = C.spec_templates(); out = []
    pos_alts = [x if isinstance(x, list) else [x] for x in segs]
    # extension aliases in the LAST segment are replaced by their members (whatever the key of that segment is)
    alias = C.conf('extension_alias')
    def expand_alias(alts):
        out = []
        for a in alts:
            hit = None
            if a not in ('*', '**'):
                for nm, members in alias.items():
                    if it.known_eq(a, nm): hit = members; break
            for m in (hit if hit is not None else [a]):
                if not any(it.known_eq(m, o) for o in out): out.append(m)
        return out
    if pos_alts and pos_alts[-1] != ['**']: pos_alts[-1] = expand_alias(pos_alts[-1])
    query = [(k, expand_alias(alts) if k == 'ext' else alts) for k, alts in query]
    for combo in itertools.product(*pos_alts):
        combo = list(combo)
        typed = []
        if '**' in combo:
            i = combo.index('**'); head, tail = combo[:i], combo[i + 1:]
            if '**' in tail: continue
            for T, sp in spec.items():
                if not is_leaf_type(T): continue
                need = len(sp) - len(head) - len(tail)
                if need < 0: continue
                test = head + ['*'] * need + tail
                c = accepts_cond(it, st, T, test)
                if c is not False and it.st.branch(c, f'den:accepts {T}'): typed.append((T, list(zip(C.keys_of(T), test))))
        else:
            for T, sp in spec.items():
                if len(sp) != len(combo): continue
                c = accepts_cond(it, st, T, combo)
                if c is not False and it.st.branch(c, f'den:accepts {T}'): typed.append((T, list(zip(C.keys_of(T), combo))))
        # narrowing by the basetype's configured query (an optional '~' value replaces an existing key only)
        for T, items in typed:
            base = T.split(C.conf('sidtype_keytype_sep'))[0]
            nq = C.conf('basetyped_search_narrowing').get(base, '')
            if nq:
                for pair in nq.split('&'):
                    k, v = pair.split('=', 1); opt = v.startswith('~'); v = v[1:] if opt else v
                    if any(kk == k for kk, _ in items): items = [(kk, v if kk == k else vv) for kk, vv in items]
                    elif not opt: items = items + [(k, v)]
                # the narrowed fields must still fit a type (C04 table); with the configured narrowing they fit the same one
                c = accepts_cond(it, st, T, [v for _, v in items]) if len(items) == len(C.keys_of(T)) else False
                if c is False or not it.st.branch(c, f'den:narrowed fits {T}'):
                    # refused narrowing leaves an unapplied query: the search is dropped
                    continue
            # trailing filters: C04's decision table on the overlaid fields (a filter may add a deeper key and thereby change the type)
            for fvals in itertools.product(*[alts for _, alts in query]) if query else [()]:
                d = [[kk, vv] for kk, vv in items]
                for (k, _), v in zip(query, fvals):
                    hit = [kv for kv in d if kv[0] == k]
                    if hit: hit[0][1] = v
                    else: d.append([k, v])
                if not query:
                    out.append((T, [(a_, b_) for a_, b_ in d])); continue
                acc = []
                for T2, its2, cond in types_of(it, st, d):
                    if cond is True or (cond is not False and it.st.branch(cond, f'den:filter fits {T2}')): acc.append((T2, its2))
                if not acc: continue
                if len(acc) == 1: pick = acc[0]
                elif any(t == T for t, _ in acc): pick = [x for x in acc if x[0] == T][0]
                else: pick = acc[0]          # the expression is a search (it is being unfolded as one): the first fitting type
                out.append((pick[0], list(pick[1])))
    # duplicates collapse
    uniq = []
    for T, items in out:
        if not any(T == T2 and all(it.known_eq(a[1], b[1]) for a, b in zip(items, i2)) for T2, i2 in uniq): uniq.append((T, items))
    return uniq

def run(it, st, case):
    tools = it.module('spil.sid.read.tools')
    name = 'C07:tools.unfold_search'
    SpilEx = it.resolve(Lazy('spil.util.exception', 'SpilException'))
    if case[0] == 'malformed': return run_malformed(it, st, tools, case[1], SpilEx)
    if case[0] == 'concrete':
        s = case[1]; st.inputs['search'] = s
        want = py_den(s)
        try: r = it.call(tools.ns['unfold_search'], [s], {})
        except Raised as e:
            st.observed = {'raises': V.exc_name(e)}
            st.oblige(f'{name}:the-only-error-ever-raised-is-SpilException', e.exc.cls.is_sub(SpilEx), ('C07',), info={'exception': V.exc_name(e), 'search': s})
            st.oblige(f'{name}:SpilException-only-for-several-**-or-an-untypable-root', want == 'SpilException' or want == [], ('C07',), info={'search': s}); return 'ok'
        got = sorted(simp(st.norm(it.getattr(x, 'uri'))) for x in r)
        st.observed = {'result': got}
        st.oblige(f'{name}:result-is-exactly-the-denotation', want is None or got == want, ('C07', 'C10'), info={'got': got, 'want': want})
        return 'ok'
    s, segs, query = build(it, st, case)
    st.inputs['search'] = s
    try: r = it.call(tools.ns['unfold_search'], [s], {})
    except Raised as e:
        st.oblige(f'{name}:raises-nothing-on-a-well-formed-search', False, ('C07',), info={'exception': V.exc_name(e), 'args': repr(e.exc.attrs.get('args'))[:160]})
        st.observed = {'raises': V.exc_name(e)}; return 'ok'
    st.observed = {'result': [it.getattr(x, 'uri') for x in r] if isinstance(r, list) else None}
    want = den(it, st, segs, query)
    typed_ok = isinstance(r, list) and all(isinstance(x, PObj) and x.attrs['_fields'].items and x.attrs['_type'] for x in r)
    st.oblige(f'{name}:every-result-is-typed-without-unapplied-query', typed_ok and all(st.str_free_of(x.attrs['_string'], '?') for x in r), ('C07', 'C10'))
    if not typed_ok: return 'ok'
    got = [(simp(st.norm(x.attrs['_type'])) if isinstance(x.attrs['_type'], SStr) else x.attrs['_type'], [(k, v) for k, v in x.attrs['_fields'].items]) for x in r]
    def same(a, b): return a[0] == b[0] and len(a[1]) == len(b[1]) and all(ka == kb and it.known_eq(va, vb) for (ka, va), (kb, vb) in zip(a[1], b[1]))
    missing = [w for w in want if not any(same(w, g) for g in got)]
    extra = [g for g in got if not any(same(g, w) for w in want)]
    st.oblige(f'{name}:result-is-exactly-the-denotation', not missing and not extra, ('C07', 'C10'),
              info={'missing': repr([(t, [repr(v) for _, v in i]) for t, i in missing])[:300], 'extra': repr([(t, [repr(v) for _, v in i]) for t, i in extra])[:300]})
    dup = any(same(got[a], got[b]) for a in range(len(got)) for b in range(a + 1, len(got)))
    st.oblige(f'{name}:no-duplicates', not dup, ('C07', 'C10'))
    return 'ok'

def run_malformed(it, st, tools, which, SpilEx):
    name = 'C07:tools.unfold_search'
    T = next(t for t in C.spec_templates() if is_leaf_type(t) and len(C.spec_templates()[t]) >= 4)
    vs = values(it, st, T)
    if which == 'two**': s = it.concat([vs[0], '/**/', vs[2], '/**']); expect = 'spil'
    elif which == 'root': s = it.concat([st.fresh_str('junk', excl=SYNTAX, nonempty=True), '/**']); expect = 'spil-or-empty'
    elif which == 'junk': s = it.concat([st.fresh_str('junk', excl=SYNTAX, nonempty=True), '/', st.fresh_str('junk2', excl=SYNTAX, nonempty=True)]); expect = 'list'
    elif which == 'junk-query': s = it.concat([st.fresh_str('junk', excl=SYNTAX, nonempty=True), '?', st.fresh_str('jk', excl=SYNTAX, nonempty=True), '=', st.fresh_str('jv', excl=SYNTAX, nonempty=True)]); expect = 'list'
    else: s = ''; expect = 'list'
    st.inputs['search'] = s
    try: r = it.call(tools.ns['unfold_search'], [s], {}); raised = None
    except Raised as e: raised = e; r = None
    st.observed = {'raises': V.exc_name(raised)} if raised else {'result': [it.getattr(x, 'uri') for x in r] if isinstance(r, list) else None}
    if raised is not None:
        st.oblige(f'{name}:the-only-error-ever-raised-is-SpilException', raised.exc.cls.is_sub(SpilEx), ('C07',), info={'exception': V.exc_name(raised), 'search': which})
        st.oblige(f'{name}:SpilException-only-for-several-**-or-an-untypable-root', expect in ('spil', 'spil-or-empty'), ('C07',), info={'search': which})
        return 'ok'
    st.oblige(f'{name}:more-than-one-**-is-refused', expect != 'spil', ('C07',))
    ok = isinstance(r, list) and all(isinstance(x, PObj) and x.attrs['_fields'].items for x in r)
    st.oblige(f'{name}:every-result-is-typed-without-unapplied-query', ok and all(st.str_free_of(x.attrs['_string'], '?') for x in r), ('C07',), info={'search': which})
    return 'ok'

# ------------------------------------------------------------------ native side
def crosscheck(case, conc, exp):
    from spil.sid.read.tools import unfold_search
    try: got = {'result': [x.uri for x in unfold_search(conc['search'])]}
    except BaseException as e: got = {'raises': type(e).__name__}
    if 'result' in got and 'result' in exp and exp['result'] is not None:
        if sorted(got['result']) != sorted(exp['result']): return {'status': 'diverged', 'input': conc, 'cpython': got, 'engine': exp}
        return {'status': 'agree'}
    if got != exp: return {'status': 'diverged', 'input': conc, 'cpython': got, 'engine': exp}
    return {'status': 'agree'}

def py_den(s):
    """executable reading of the oracle on a concrete search string"""
    import re
    spec = C.spec_templates(); alias = C.conf('extension_alias')
    head, _, q = s.partition('?')
    parts = head.split('/')
    def exp_alias(seg): return sorted({m for x in seg.split(',') for m in alias.get(x.strip(), [x.strip()])})
    pos = [[x.strip() for x in p.split(',')] for p in parts[:-1]] + [exp_alias(parts[-1])]
    qpairs = []
    if q:
        for pair in q.split('&'):
            if '=' not in pair: return None
            k, v = pair.split('=', 1); qpairs.append((k, exp_alias(v) if k == 'ext' else [x for x in v.split(',')]))
    out = set()
    def acc(T, segs): return len(spec[T]) == len(segs) and all(re.fullmatch(p, x) for (k, p), x in zip(spec[T], segs))
    for combo in itertools.product(*pos):
        combo = list(combo); typed = []
        if combo.count('**') > 1: return 'SpilException'
        if '**' in combo:
            i = combo.index('**'); h, t = combo[:i], combo[i + 1:]
            for T in spec:
                if not is_leaf_type(T): continue
                need = len(spec[T]) - len(h) - len(t)
                if need >= 0 and acc(T, h + ['*'] * need + t): typed.append((T, h + ['*'] * need + t))
        else:
            typed = [(T, combo) for T in spec if acc(T, combo)]
        for T, segs in typed:
            items = dict(zip(C.keys_of(T), segs))
            nq = C.conf('basetyped_search_narrowing').get(T.split('__')[0], '')
            for pair in (nq.split('&') if nq else []):
                k, v = pair.split('=', 1)
                if v.startswith('~'):
                    if k in items: items[k] = v[1:]
                else: items[k] = v
            if not acc(T, list(items.values())): continue
            for fv in itertools.product(*[a for _, a in qpairs]) if qpairs else [()]:
                d = dict(items)
                for (k, _), v in zip(qpairs, fv):
                    if v.startswith('~'):
                        if k in d: d[k] = v[1:]
                    else: d[k] = v
                fits = [T2 for T2 in spec if set(C.keys_of(T2)) == set(d) and acc(T2, [d[k] for k in C.keys_of(T2)])]
                if not fits: continue
                T3 = fits[0] if len(fits) == 1 else (T if T in fits else fits[0])
                out.add(T3 + ':' + '/'.join(d[k] for k in C.keys_of(T3)))
    return sorted(out)

def replay(case, ob, inputs):
    from spil.sid.read.tools import unfold_search
    C.clear_native_caches()
    s = inputs['search']
    r = C.call_native(lambda: sorted(x.uri for x in unfold_search(s)))
    want = py_den(s)
    if r[0] == 'raise':
        ok = r[1] == 'SpilException' and (want == 'SpilException' or case[0] == 'malformed')
        return {'confirmed': not ok, 'call': f'unfold_search({s!r})', 'observed': f'raises {r[1]}: {r[2]}', 'expected': repr(want)[:300], 'reproducer': f'from spil.sid.read.tools import unfold_search; unfold_search({s!r})'}
    ok = (want is None) or (want != 'SpilException' and r[1] == want) or (case[0] == 'malformed' and want != 'SpilException')
    return {'confirmed': not ok, 'call': f'unfold_search({s!r})', 'observed': repr(r[1])[:400], 'expected': repr(want)[:400], 'reproducer': f'from spil.sid.read.tools import unfold_search; print(unfold_search({s!r}))'}
