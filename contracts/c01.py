"""
C01 -- a string is typed exactly as the configured templates say, else stays untyped.

Functions under contract (bodies read from /repo on every run, callees inlined, resolva interpreted from its source):
  spil.sid.sid:BaseSid.__new__            dispatches to the factory
  spil.sid.core.sid_factory:sid_factory   first truthy argument wins; None result -> empty Sid
  spil.sid.core.sid_factory:sid_to_sid    (through the real lru_cache closure)  uri / query splitting
  spil.sid.core.sid_resolver:sid_to_dict  (through the real lru_kw_cache closure) first-match / forced resolve
  spil.sid.sid:TypedSid._init, type, fields, __len__, StringSid.string, __str__

Contract of sid_to_dict(sid, _type=None)           [monitor, checked at every call the harness reaches]
  raises    nothing
  ensures   _type falsy : result == (T, fields_of(sid, T)) for the FIRST template T (configuration order) with as many
                          placeholders as sid has '/'-segments whose every pattern accepts its WHOLE segment; (None, None) if none
            _type given : same with only template _type considered
Contract of Sid(s) for every '?'-free string s
  raises    nothing
  ensures   let (t, b) = s split at the first ':'  (b = s, t = None if no ':')
            result._string == b ; (result._type, result._fields) == sid_to_dict(b, t) or ('', {}) ;
            untyped  =>  not bool(result), len(result) == 0, type == '', fields == {}
The oracle is computed from the template TEXT of the snapshot with full-match semantics; the code goes through resolva's
compiled regexes with `search` and `$`.
"""
from __future__ import annotations
import re, z3
from pyvc.sstr import SStr, S, SBool, Var, simp, zb, OutsideSubset
from pyvc import interp as V
from pyvc.interp import PDict, PObj, Raised, Lazy
from . import common as C

PROPERTY = 'C01'
FUNCTIONS = {'spil/sid/sid.py': ['BaseSid.__new__', 'TypedSid._init', 'TypedSid.type', 'TypedSid.fields', 'TypedSid.__len__', 'StringSid.string', 'StringSid.__str__'],
             'spil/sid/core/sid_factory.py': ['sid_factory', 'sid_to_sid'],
             'spil/sid/core/sid_resolver.py': ['sid_to_dict'],
             'spil/util/caching.py': ['lru_cache.wrapper', 'lru_kw_cache.wrapper (executed as real closures; their transparency is C13)']}
TRUSTED = ['resolva.Resolver.resolve_first/resolve_one/resolve_all + template.match_to_dict: interpreted from the installed source, not assumed',
           're.Pattern.search / Match.groupdict on the snapshot patterns: modelled (pyvc.world.RegexModel)']
ASSUMPTIONS = ['inputs containing "?" are covered by C04 (structured query shape); C01 quantifies over every "?"-free string',
               'strings of 13 or more "/"-segments are handled as an opaque tail: every template has fewer segments (checked), so they are untyped']
EXPLANATION = 'every string without "?" (unbounded length, any characters): shapes by number of ":" and "/" separators, each fully symbolic'
BUDGET_S = {'quick': 900, 'thorough': 2400}

def cases(tier): return [('sid',)]

# ------------------------------------------------------------------ oracle (symbolic reading)
def oracle_obligations(it, st, name, sid, forced, code_type, code_fields, props=('C01',)):
    """obligations: (code_type, code_fields) is what the statement's oracle gives for string `sid` (forced template or natural typing)"""
    spec = C.spec_templates()
    sidn = st.norm(S(sid))
    if forced is not None and not isinstance(forced, str): raise OutsideSubset('symbolic forced type reached the oracle')
    max_seg = max(len(v) for v in spec.values())
    if not it.is_true(sid, 'oracle:empty'):
        st.oblige(f'{name}:empty-string-is-untyped', code_type is None, props); return
    segs, open_tail = st.split(sidn, '/', -1, 'oracle-segments', max_open=max_seg + 1)
    cands = [] if open_tail else [T for T in spec if len(spec[T]) == len(segs) and (forced is None or T == forced)]
    prior = []
    matched_any = False
    for T in cands:
        conds = C.accepts(st, T, segs)
        if any(c is False for c in conds): continue
        zs = [c.z for c in conds if c is not True]
        here = prior + zs
        if T != code_type:
            # the oracle would pick T (all earlier candidates reject, T accepts) -- must be impossible on this path
            st.oblige(f'{name}:type-is-first-full-match', SBool(z3.Not(z3.And(*here))) if here else False, props,
                      info={'code_type': code_type, 'spec_type': T})
        else:
            matched_any = True
            keys = [k for k, _ in spec[T]]
            ck = [k for k, _ in code_fields.items] if isinstance(code_fields, PDict) else None
            st.oblige(f'{name}:field-keys-in-template-order', ck == keys, props, info={'code_keys': ck, 'spec_keys': keys})
            if ck == keys:
                eqs = [it.py_eq(cv, seg) for (_, cv), seg in zip(code_fields.items, segs)]
                st.oblige(f'{name}:field-values-are-the-segments', it.conj(eqs), props)
        prior.append(z3.Not(z3.And(*zs)) if zs else z3.BoolVal(False))
    if code_type is not None and not matched_any:
        st.oblige(f'{name}:typed-only-if-a-template-accepts', False, props, info={'code_type': code_type, 'candidates': cands})
    elif code_type is not None:
        # the chosen template really accepts (not only "no earlier one does")
        pass
    if code_type is None:
        # nothing may accept
        st.oblige(f'{name}:untyped-only-if-no-template-accepts', SBool(z3.And(*prior)) if prior else True, props)

def mon_sid_to_dict(it, f, args, kwargs, outcome, phase, pre=None):
    st = it.st
    if phase == 'pre': return None
    name = 'C01:sid_resolver.sid_to_dict'
    if phase == 'raise':
        st.oblige(f'{name}:raises-nothing', False, ('C01',), info={'exception': V.exc_name(outcome)}); return
    env = it.bind(f, args, kwargs)
    sid, _type = env['sid'], env['_type']
    forced = None
    if _type is not None and it.is_true(_type, 'oracle:type-given'):
        tn = simp(st.norm(_type)) if isinstance(_type, SStr) else _type
        if isinstance(tn, str): forced = tn if tn else None
        else:
            # symbolic type name: fork over the template table (complete: equal to one of the names, or to none)
            names = list(C.spec_templates())
            k = st.choose([(n, [st.norm(_type).z() == z3.StringVal(n)]) for n in names] + [('<other>', [st.norm(_type).z() != z3.StringVal(n) for n in names])], 'oracle:forced-type')
            forced = names[k] if k < len(names) else '\0no-such-template'
            if k < len(names): st.subst_lit(_type, names[k])
    if not (isinstance(outcome, tuple) and len(outcome) == 2):
        st.oblige(f'{name}:returns-a-pair', False, ('C01',)); return
    ct, cf = outcome
    ct = simp(st.norm(ct)) if isinstance(ct, SStr) else ct
    if ct is None and cf is None: pass
    elif not isinstance(ct, str) or not isinstance(cf, PDict) or not cf.items:
        st.oblige(f'{name}:returns-(type,fields)-or-(None,None)', False, ('C01',), info={'type': repr(ct)}); return
    oracle_obligations(it, st, name, sid, forced, ct, cf)
    it.call_log.append(('sid_to_dict', sid, _type, ct, cf))

def install(world):
    world.monitors['spil.sid.core.sid_resolver:sid_to_dict'] = mon_sid_to_dict

def run(it, st, case):
    install(it.world)
    max_seg = max(len(v) for v in C.spec_templates().values())
    it.split_max_open = max_seg + 2
    s = st.fresh('s', excl={'?'}); st.inputs['s'] = SStr([s])
    Sid = C.sid_class(it)
    name = 'C01:Sid(s)'
    try:
        res = it.call(Sid, [SStr([s])], {})
    except Raised as e:
        st.oblige(f'{name}:raises-nothing', False, ('C01',), info={'exception': V.exc_name(e), 'args': repr(e.exc.attrs.get('args'))[:120]})
        st.observed = {'raises': V.exc_name(e)}
        return 'ok'
    st.oblige(f'{name}:raises-nothing', True, ('C01',))
    if not (isinstance(res, PObj) and res.cls.is_sub(Sid)):
        st.oblige(f'{name}:returns-a-Sid', False, ('C01',)); return 'ok'
    ty, fl, string = C.view(res)
    st.observed = {'type': ty, 'fields': [[k, v] for k, v in fl] if fl is not None else None, 'string': string}
    # expected decomposition of the input
    sn = st.norm(SStr([s]))
    parts, _ = st.split(sn, ':', 1, 'spec:colon')
    if len(parts) == 1: b, t = sn, None
    else: t, b = parts[0], parts[1]
    st.oblige(f'{name}:string-is-the-input-without-uri-prefix', it.py_eq(string, simp(b)), ('C01',))
    # the resolver must have been asked about (b, t) and its answer must be the Sid's type/fields
    calls = [c for c in it.call_log if c[0] == 'sid_to_dict']
    want_t = None if t is None or st.norm(t).atoms == () else t
    hit = None
    for _, a_sid, a_type, ct, cf in calls:
        same_sid = it.py_eq(a_sid, simp(b))
        same_t = (a_type is None or a_type == '' or (isinstance(a_type, SStr) and not st.norm(a_type).atoms)) if want_t is None else (a_type is not None and it.py_eq(a_type, simp(want_t)) is True)
        if same_sid is True and same_t: hit = (ct, cf)
    if hit is None:
        if it.is_true(simp(b), 'spec:empty-body'):
            st.oblige(f'{name}:resolves-the-uri-body-with-the-uri-type', False, ('C01',), info={'calls': repr([(c[1], c[2]) for c in calls])[:200]})
        else:
            st.oblige(f'{name}:empty-body-is-untyped', ty == '' and not fl, ('C01',))
        return 'ok'
    ct, cf = hit
    st.oblige(f'{name}:type-is-the-resolved-type', it.py_eq(ty, ct or ''), ('C01',))
    if ct is None:
        ln = it.call(V.BUILTINS['len'], [res], {})
        st.oblige(f'{name}:untyped-has-no-fields-len0-falsy', (not fl) and ln == 0 and it.truthy(res) is False and ty == '', ('C01',))
    else:
        same = isinstance(res.attrs['_fields'], PDict) and [k for k, _ in fl] == [k for k, _ in cf.items] and it.conj([it.py_eq(a, b_) for (_, a), (_, b_) in zip(fl, cf.items)])
        st.oblige(f'{name}:fields-are-the-resolved-fields', same, ('C01',))
        ln = it.call(V.BUILTINS['len'], [res], {})
        st.oblige(f'{name}:typed-len-and-truthiness', ln == len(cf.items) and it.truthy(res) is True, ('C01',))
    # accessors
    st.oblige(f'{name}:accessors-return-the-view', it.conj([it.py_eq(it.getattr(res, 'type'), ty), it.py_eq(it.getattr(res, 'string'), string),
                                                             it.py_eq(it.to_str(res), string), it.py_eq(it.getattr(res, 'fields'), res.attrs['_fields'])]), ('C01',))
    return 'ok'

# ------------------------------------------------------------------ native side
def _expected_py(s):
    head, sep, _ = s.partition('?')
    if ':' in head:
        t, b = head.split(':', 1)
        T, d = C.py_nat_type(b, forced=t) if t else C.py_nat_type(b)
    else:
        b = head; T, d = C.py_nat_type(b)
    return (T or '', list((d or {}).items()), b)

def crosscheck(case, conc, exp):
    """run the real Sid(s) on the model input; its outcome must equal the symbolic outcome evaluated under the same model"""
    Sid = C.native()['Sid']; s = conc['s']
    r = C.call_native(Sid, s)
    if r[0] == 'raise': got = {'raises': r[1]}
    else: got = {'type': r[1].type, 'fields': [[k, v] for k, v in r[1].fields.items()], 'string': r[1].string}
    if got != exp: return {'status': 'diverged', 'input': s, 'cpython': got, 'engine': exp}
    return {'status': 'agree'}

def replay(case, ob, inputs):
    Sid = C.native()['Sid']; s = inputs['s']
    r = C.call_native(Sid, s)
    want = _expected_py(s)
    if r[0] == 'raise':
        return {'confirmed': True, 'call': f'Sid({s!r})', 'observed': f'raises {r[1]}: {r[2]}', 'expected': f'type/fields/string {want!r}',
                'reproducer': f'from spil import Sid; Sid({s!r})'}
    got = (r[1].type, list(r[1].fields.items()), r[1].string)
    extra = (bool(r[1]), len(r[1]))
    ok = got == want and extra == (bool(want[0]), len(want[1]))
    return {'confirmed': not ok, 'call': f'Sid({s!r})', 'observed': repr(got), 'expected': repr(want),
            'reproducer': f'from spil import Sid; x = Sid({s!r}); print(x.type, x.fields, repr(x.string))'}
