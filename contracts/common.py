"""
Shared specification objects (DESIGN section 3): the typing oracle computed from the template TEXT of the configuration
snapshot (independent of resolva's compiled regexes), the representation invariant wf / view of a Sid, constructors
for arbitrary well-formed typed Sids, and native (CPython) replay helpers.
"""
from __future__ import annotations
import re, io, contextlib, json
import z3
from pyvc.sstr import SStr, S, SBool, Var, pattern_re, simp, zb, re_excludes
from pyvc import interp as V
from pyvc.interp import PDict, PObj, Lazy, Raised, interleave
from pyvc import world as W

# ------------------------------------------------------------------ template text -> spec
PH = re.compile(r'{(?P<key>[^:{}]+)(:(?P<pat>(\\}|[^}])+))?}')
_SPEC = None
def spec_templates():
    """name -> [(key, pattern_text)] parsed from the *text* of conf.sid_templates (after extrapolation), in configuration order"""
    global _SPEC
    if _SPEC is None:
        out = {}
        for name, text in W.take_snapshot()['conf']['sid_templates'].items():
            segs = []
            for seg in text.split('/'):
                m = PH.fullmatch(seg)
                if not m: raise V.OutsideSubset(f'template segment not a single placeholder: {seg!r}')
                pat = (m.group('pat') or '[^/]*').replace('\\{', '{').replace('\\}', '}')
                segs.append((m.group('key'), pat))
            out[name] = segs
        _SPEC = out
    return _SPEC
def keys_of(T): return [k for k, _ in spec_templates()[T]]
def conf(name): return W.take_snapshot()['conf'][name]

def accepts(st, T, segs):
    """list of per-segment conditions (bool|SBool): pattern i of template T accepts the WHOLE segment i"""
    return [st.in_re(seg, pattern_re(pat)[0]) for (k, pat), seg in zip(spec_templates()[T], segs)]
def conj_z(conds):
    zs = [zb(c) for c in conds]
    return z3.And(*zs) if zs else z3.BoolVal(True)

def view(o):
    """(type, [(key, value)...], string) of a Sid object"""
    f = o.attrs.get('_fields')
    return (o.attrs.get('_type'), [(k, v) for k, v in f.items] if isinstance(f, PDict) else f, o.attrs.get('_string'))

def sid_class(it): return it.resolve(Lazy('spil.sid.sid', 'Sid'))

def mk_typed(it, st, T, tag='v', concrete=False, search_ok=True):
    """an arbitrary Sid object satisfying typed(x) for template T: every field value a symbolic string constrained only by its pattern"""
    Sid = sid_class(it)
    vals = []
    for key, pat in spec_templates()[T]:
        v = st.fresh_str(f'{tag}_{key}', excl=set('/'), pattern=pat)
        vals.append((key, v))
    x = PObj(Sid)
    x.attrs['_string'] = it.concat(interleave('/', [v for _, v in vals]))
    x.attrs['_type'] = T
    x.attrs['_fields'] = PDict(vals)
    return x, vals

# ------------------------------------------------------------------ native side
_NAT = {}
def native():
    """the real library, imported once per process (stdout silenced)"""
    if not _NAT:
        with contextlib.redirect_stdout(io.StringIO()):
            import spil
            from spil import Sid
        _NAT['spil'] = spil; _NAT['Sid'] = Sid
    return _NAT
def py_nat_type(s, forced=None):
    """executable reading of the C01 oracle: first template (or the forced one) with as many placeholders as s has segments whose every pattern fullmatches"""
    segs = s.split('/')
    for T, spec in spec_templates().items():
        if forced is not None and T != forced: continue
        if len(spec) != len(segs): continue
        if all(re.fullmatch(p, x) for (k, p), x in zip(spec, segs)):
            return T, {k: x for (k, p), x in zip(spec, segs)}
    return None, None
def native_view(x):
    return (x.type, list(x.fields.items()), x.string)
def call_native(fn, *a, **k):
    try: return ('ret', fn(*a, **k))
    except BaseException as e: return ('raise', type(e).__name__, str(e)[:200])
def clear_native_caches():
    import gc
    for o in gc.get_objects():
        try:
            if callable(getattr(o, 'cache_clear', None)) and callable(o): o.cache_clear()
        except Exception: pass
