"""
Shared specification objects (DESIGN section 3): the typing oracle computed from the template TEXT of the configuration
snapshot (independent of resolva's compiled regexes), the representation invariant wf / view of a Sid, constructors
for arbitrary well-formed typed Sids, and native (CPython) replay helpers.
"""
from __future__ import annotations
import re, io, contextlib, json
import z3
from pyvc.sstr import SStr, S, SBool, Var, pattern_re, simp, zb, re_excludes
from pyvc import interp as V
from pyvc.interp import PDict, PObj, Lazy, Raised, interleave
from pyvc import world as W

# ------------------------------------------------------------------ template text -> spec
PH = re.compile(r'{(?P<key>[^:{}]+)(:(?P<pat>(\\}|[^}])+))?}')
_SPEC = None
def spec_templates():
    """name -> [(key, pattern_text)] parsed from the *text* of conf.sid_templates (after extrapolation), in configuration order"""
    global _SPEC
    if _SPEC is None:
        out = {}
        for name, text in W.take_snapshot()['conf']['sid_templates'].items():
            segs = []
            for seg in text.split('/'):
                m = PH.fullmatch(seg)
                if not m: raise V.OutsideSubset(f'template segment not a single placeholder: {seg!r}')
                pat = (m.group('pat') or '[^/]*').replace('\\{', '{').replace('\\}', '}')
                segs.append((m.group('key'), pat))
            out[name] = segs
        _SPEC = out
    return _SPEC
def keys_of(T): return [k for k, _ in spec_templates()[T]]
def conf(name): return W.take_snapshot()['conf'][name]

def accepts(st, T, segs):
    """list of per-segment conditions (bool|SBool): pattern i of template T accepts the WHOLE segment i"""
    return [st.in_re(seg, pattern_re(pat)[0]) for (k, pat), seg in zip(spec_templates()[T], segs)]
def conj_z(conds):
    zs = [zb(c) for c in conds]
    return z3.And(*zs) if zs else z3.BoolVal(True)

def view(o):
    """(type, [(key, value)...], string) of a Sid object"""
    f = o.attrs.get('_fields')
    return (o.attrs.get('_type'), [(k, v) for k, v in f.items] if isinstance(f, PDict) else f, o.attrs.get('_string'))

def sid_class(it): return it.resolve(Lazy('spil.sid.sid', 'Sid'))

def mk_typed(it, st, T, tag='v', concrete=False, search_ok=True):
    """an arbitrary Sid object satisfying typed(x) for template T: every field value a symbolic string constrained only by its pattern"""
    Sid = sid_class(it)
    vals = []
    for key, pat in spec_templates()[T]:
        v = st.fresh_str(f'{tag}_{key}', excl=set('/'), pattern=pat)
        vals.append((key, v))
    x = PObj(Sid)
    x.attrs['_string'] = it.concat(interleave('/', [v for _, v in vals]))
    x.attrs['_type'] = T
    x.attrs['_fields'] = PDict(vals)
    # the object then goes through the real TypedSid._init (as the factory does): state a constructor adds exists on the harness objects too
    try: init = it.getattr(x, '_init')
    except Raised: init = None
    if init is not None: it.call(init, [x.attrs['_string'], x.attrs['_type'], x.attrs['_fields']], {})
    return x, vals

# ------------------------------------------------------------------ native side
_NAT = {}
def native():
    """the real library, imported once per process (stdout silenced)"""
    if not _NAT:
        with contextlib.redirect_stdout(io.StringIO()):
            import spil
            from spil import Sid
        _NAT['spil'] = spil; _NAT['Sid'] = Sid
    return _NAT
def py_nat_type(s, forced=None):
    """executable reading of the C01 oracle: first template (or the forced one) with as many placeholders as s has segments whose every pattern fullmatches"""
    segs = s.split('/')
    for T, spec in spec_templates().items():
        if forced is not None and T != forced: continue
        if len(spec) != len(segs): continue
        if all(re.fullmatch(p, x) for (k, p), x in zip(spec, segs)):
            return T, {k: x for (k, p), x in zip(spec, segs)}
    return None, None
def native_view(x):
    return (x.type, list(x.fields.items()), x.string)
def call_native(fn, *a, **k):
    try: return ('ret', fn(*a, **k))
    except BaseException as e: return ('raise', type(e).__name__, str(e)[:200])
def clear_native_caches():
    import gc
    for o in gc.get_objects():
        try:
            if callable(getattr(o, 'cache_clear', None)) and callable(o): o.cache_clear()
        except Exception: pass

CANDIDATES = ['hamlet', 'a', 's', 'char', 'ophelia', 'sq010', 'sh0010', 'model', 'anim', 'v001', 'w', 'smoke', 'ma', 'mov', 'abc', 'x']
def example_values(T):
    """a concrete, non-search example value per key of template T (first candidate its pattern accepts)"""
    out = []
    for key, pat in spec_templates()[T]:
        for c in CANDIDATES:
            if re.fullmatch(pat, c): out.append((key, c)); break
        else: raise V.OutsideSubset(f'no example value for {key} of {T}')
    return out
def mk_concrete(it, T):
    vals = example_values(T)
    x = PObj(sid_class(it))
    x.attrs['_string'] = '/'.join(v for _, v in vals); x.attrs['_type'] = T; x.attrs['_fields'] = PDict(vals)
    return x, vals

# ------------------------------------------------------------------ frame scan of the finder / getter classes (modifies clause: nothing reachable from self)
MUTATORS = {'append', 'extend', 'add', 'update', 'setdefault', 'pop', 'popitem', 'remove', 'clear', 'insert', 'sort', 'discard'}
READ_CLASSES_FILES = ['spil/sid/read/finder.py', 'spil/sid/read/finders/find_list.py', 'spil/sid/read/finders/find_glob.py', 'spil/sid/read/finders/find_all.py',
                      'spil/sid/read/finders/find_constants.py', 'spil/sid/pathops/find_paths.py', 'spil/sid/read/getter.py', 'spil/sid/read/getters/getter_finder.py',
                      'spil/sid/read/getters/getter_all.py', 'spil/sid/pathops/getter_paths.py']
ALLOWED_SELF_WRITERS = {'__init__', '_sort_searchlist'}      # construction; the documented pre-sort of FindInList's own list
def self_store_sites(world):
    """(file, Class.method, line, what) for every statement in a read-only method of a finder / getter class that stores into a container held
    by self (self.x[k] = v, self.x.append(...), ...) or rebinds a module global: the memo pattern that makes later answers depend on earlier ones"""
    import ast, os
    out = []
    for rel in READ_CLASSES_FILES:
        path = os.path.join(world.repo, rel)
        if not os.path.exists(path): continue
        tree = world.parse(path)
        for cls in [n for n in tree.body if isinstance(n, ast.ClassDef)]:
            for fn in [n for n in cls.body if isinstance(n, ast.FunctionDef)]:
                if fn.name in ALLOWED_SELF_WRITERS: continue
                selfname = fn.args.args[0].arg if fn.args.args else 'self'
                def on_self(e):
                    while isinstance(e, (ast.Attribute, ast.Subscript)): e = e.value
                    return isinstance(e, ast.Name) and e.id == selfname
                for n in ast.walk(fn):
                    if isinstance(n, (ast.Assign, ast.AugAssign, ast.AnnAssign)):
                        tgts = n.targets if isinstance(n, ast.Assign) else [n.target]
                        for t in tgts:
                            if isinstance(t, ast.Subscript) and on_self(t): out.append((rel, f'{cls.name}.{fn.name}', n.lineno, 'item assignment into a container of self'))
                            elif isinstance(t, ast.Attribute) and on_self(t) and not isinstance(n, ast.AugAssign): out.append((rel, f'{cls.name}.{fn.name}', n.lineno, f'assignment to self.{t.attr}'))
                    elif isinstance(n, ast.Call) and isinstance(n.func, ast.Attribute) and n.func.attr in MUTATORS and isinstance(n.func.value, (ast.Attribute, ast.Subscript)) and on_self(n.func.value):
                        out.append((rel, f'{cls.name}.{fn.name}', n.lineno, f'{n.func.attr}() on a container of self'))
                    elif isinstance(n, ast.Global): out.append((rel, f'{cls.name}.{fn.name}', n.lineno, 'global statement'))
    return out
def frame_scan_obligations(it, st, prefix, props):
    sites = self_store_sites(it.world)
    st.oblige(f'{prefix}:finder-and-getter-methods-keep-no-state-between-calls', not sites, props,
              info={'sites': [f'{a}:{c} {b}: {d}' for a, b, c, d in sites][:6], 'rule': 'read-only methods of Finder / Getter classes do not store into self or module globals (frame: modifies nothing)'})
