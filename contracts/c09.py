"""
C09 -- the '>' (last) operator returns the greatest entry of each group.

Functions under contract (real source): find_glob.FindByGlob.sorted_search, FindByGlob.do_find, sid.DataSid.get_last.
Modular: star_search (abstract in FindByGlob) is replaced by its contract "returns the entries that match the search with '>' read as '*'"
-- a stub subclass returns an arbitrary list F of symbolic entries; FindInAll.find_one (configuration-dependent dispatch) is replaced by an
arbitrary answer in the get_last harness.

requires  a typed search Sid x of template T whose unfolded form carries '>' at segment position i (first '>' if there are two);
          F = 2 or 3 entries with as many '/'-segments as x, every segment an arbitrary '/'-free string (so names may contain '-', '.', '+',
          which sort below '/')
ensures   the set yielded by sorted_search([x]) has exactly one entry per distinct segments[:i] among F: the one whose segments[i:] are greatest
          under segment-by-segment string comparison; as_sid only wraps the entry.
          get_last(key) == the answer of the finder for x.get_with(key='>') if that answer carries `key`, else the empty Sid; raises nothing.
"""
from __future__ import annotations
import itertools, z3
from pyvc.sstr import SStr, S, SBool, Var, simp, zb, OutsideSubset
from pyvc import interp as V
from pyvc.interp import PDict, PObj, PClass, PFunc, Raised, Lazy, interleave, PBuiltin
from . import common as C

PROPERTY = 'C09'
FUNCTIONS = {'spil/sid/read/finders/find_glob.py': ['FindByGlob.sorted_search', 'FindByGlob.do_find'], 'spil/sid/sid.py': ['DataSid.get_last', 'TypedSid.get_with', 'TypedSid.get']}
TRUSTED = ['sorted(): stable sort using only "<" on the keys (modelled as insertion sort with forks); itertools.groupby: maximal runs of equal keys (modelled)',
           'str "<": lexicographic by code point (the solvers\' str.< / python semantics)']
ASSUMPTIONS = ["A-reserved: the search Sid's free-text values contain no '?', ':', blank, and no embedded '>' / '*' (a search symbol is a whole segment)",
               'star_search is abstract here: an arbitrary list of entries with the right number of segments (its own contract is C08)',
               'FindInAll.find_one is abstract in the get_last harness (its configuration-dependent dispatch is outside reach: C11)',
               "'does not depend on which Finder serves it' is not claimed (needs C11)"]
BOUNDED = ['concrete family: 6 entry lists with names containing - . + (needed to exhibit the whole-string order defect on a tree that sorts whole strings: str.< on symbolic concatenations is left undecided by both solvers)',
           '2 or 3 entries per call (contents symbolic); templates of up to 5 segments in the quick tier']
EXPLANATION = 'sorted_search on arbitrary entry lists of 2-3 symbolic entries against the segment-wise maximum oracle; get_last against an abstract finder'
BUDGET_S = {'quick': 900, 'thorough': 1800}

def cases(tier):
    spec = C.spec_templates(); cs = []
    for T in spec:
        n = len(spec[T])
        if n < 2 or (tier == 'quick' and n > 4): continue
        for i in range(1, n):
            cs.append(('sorted', T, i, 2))
            if n <= 3 or tier == 'thorough': cs.append(('sorted', T, i, 3))
    for T in spec:
        if len(spec[T]) >= 2: cs.append(('get_last', T))
    for k in range(len(CONCRETE)): cs.append(('concrete', k))
    return cs

# concrete family: names containing the characters that sort below '/' ('-', '.', '+'), '>' at different positions, one and two groups
CONCRETE = [
    ('asset__asset', 'hamlet/a/>/x', ['hamlet/a/char/x', 'hamlet/a/char-b/x']),
    ('asset__asset', 'hamlet/a/char/>', ['hamlet/a/char/a', 'hamlet/a/char/a-b', 'hamlet/a/char/a.b']),
    ('asset__task', 'hamlet/a/char/>/model', ['hamlet/a/char/a/model', 'hamlet/a/char/a+b/model', 'hamlet/a/char/a-b/model']),
    ('asset__task', 'hamlet/a/>/>/model', ['hamlet/a/char/z/model', 'hamlet/a/prop/a/model', 'hamlet/a/prop/a.b/model']),
    ('shot__cache_node', 'hamlet/s/sq001/sh0010/anim/>/w/>', ['hamlet/s/sq001/sh0010/anim/v001/w/n', 'hamlet/s/sq001/sh0010/anim/v002/w/a', 'hamlet/s/sq001/sh0010/anim/v002/w/a-c']),
    ('asset__version', 'hamlet/a/char/*/model/>', ['hamlet/a/char/a/model/v001', 'hamlet/a/char/a/model/v003', 'hamlet/a/char/a-b/model/v002', 'hamlet/a/char/a-b/model/v001']),
]

def run_concrete(it, st, k):
    T, search, entries = CONCRETE[k]
    fg = it.module('spil.sid.read.finders.find_glob'); FBG = fg.ns['FindByGlob']
    st.inputs['type'] = T; st.inputs['search'] = search; st.inputs['entries'] = list(entries); st.inputs['index'] = search.split('/').index('>')
    stub = PClass('StubFinder', [FBG], fg)
    stub.ns['star_search'] = PBuiltin(lambda it_, search_sids, as_sid=False, do_sort=False: list(entries), 'star_search')
    x = it.call(C.sid_class(it), [T + ':' + search], {})
    name = 'C09:FindByGlob.sorted_search'
    try: got = list(it.call(V.PBound(PObj(stub), it.resolve(FBG.lookup('sorted_search'))), [[x]], {'as_sid': False}))
    except Raised as e:
        st.oblige(f'{name}:raises-nothing', False, ('C09',), info={'exception': V.exc_name(e)}); st.observed = {'raises': V.exc_name(e)}; return 'ok'
    got = [simp(st.norm(g)) if isinstance(g, SStr) else g for g in got]
    st.observed = {'result': list(got)}
    st.oblige(f'{name}:one-entry-per-prefix-the-segmentwise-greatest', sorted(got) == py_want(entries, st.inputs['index']), ('C09', 'C18'), info={'got': got, 'want': py_want(entries, st.inputs['index'])})
    return 'ok'

def run(it, st, case):
    if case[0] == 'concrete': return run_concrete(it, st, case[1])
    if case[0] == 'sorted': return run_sorted(it, st, *case[1:])
    return run_get_last(it, st, case[1])

def seg_var(st, hint): return st.fresh_str(hint, excl=set('/'))

def run_sorted(it, st, T, i, nent):
    fg = it.module('spil.sid.read.finders.find_glob')
    FBG = fg.ns['FindByGlob']
    n = len(C.spec_templates()[T])
    # the typed search: '>' at position i, other values symbolic under their patterns
    x, vals = C.mk_typed(it, st, T, tag='s')
    from .c04 import restrict_reserved
    restrict_reserved(st, vals)          # A-reserved: the search is re-parsed from its uri by sorted_search
    for _, v in vals:
        for a in st.norm(v).atoms:
            if isinstance(a, Var):
                st.excl.setdefault(a.name, set()).update(' ')
                if a.name not in st.domain: st.excl[a.name].update('>*')     # in a free-text field the search symbols stand alone ('>' / '*' as the whole segment is a domain value of the pattern)
    vi = vals[i][1]
    if not it.known_eq(vi, '>'): return 'skip'
    for j in range(i):
        if it.known_eq(vals[j][1], '>'): return 'skip'       # i is the FIRST '>'
    entries = [[seg_var(st, f'e{k}s{j}_') for j in range(n)] for k in range(nent)]
    F = [it.concat(interleave('/', e)) for e in entries]
    st.inputs['type'] = T; st.inputs['search'] = x.attrs['_string']; st.inputs['entries'] = list(F); st.inputs['index'] = i
    # stub subclass: star_search returns F (its contract: the matches of the search with '>' read as '*')
    stub = PClass('StubFinder', [FBG], fg)
    asked = []
    def star_stub(it_, search_sids, as_sid=False, do_sort=False): asked.append((list(search_sids), as_sid)); return list(F)
    stub.ns['star_search'] = PBuiltin(star_stub, 'star_search')
    finder = PObj(stub)
    name = 'C09:FindByGlob.sorted_search'
    try: got = it.call(V.PBound(finder, it.resolve(FBG.lookup('sorted_search'))), [[x]], {'as_sid': False})
    except Raised as e:
        st.oblige(f'{name}:raises-nothing', False, ('C09',), info={'exception': V.exc_name(e), 'args': repr(e.exc.attrs.get('args'))[:150]}); st.observed = {'raises': V.exc_name(e)}; return 'ok'
    got = list(got)
    st.observed = {'result': list(got)}
    # what the star search is asked: the SAME typed search with every '>' read as '*' (a Finder that answers per type, FindInPaths, depends on the type being kept)
    want_segs = ['*' if it.known_eq(v, '>') else v for _, v in vals]
    ok_call = len(asked) == 1 and len(asked[0][0]) == 1 and isinstance(asked[0][0][0], PObj) and asked[0][1] is False
    if ok_call:
        t_, f_, s_ = C.view(asked[0][0][0])
        ok_call = (t_ == T or it.known_eq(t_, T)) and it.known_eq(s_, it.concat(interleave('/', want_segs)))
    st.oblige(f'{name}:star_search-is-asked-the-same-typed-search-with-greater-read-as-star', ok_call, ('C09',),
              info={'asked': repr([(C.view(q)[0], C.view(q)[2]) for qs, _ in asked for q in qs if isinstance(q, PObj)])[:300], 'type': T})
    # oracle
    groups = []      # [(prefix_segments, [entry indices])]
    for k, e in enumerate(entries):
        for g in groups:
            if it.known_eq(list(g[0]), list(e[:i])): g[1].append(k); break
        else: groups.append((e[:i], [k]))
    want = []
    for pre, ks in groups:
        best = ks[0]
        for k in ks[1:]:
            gt = it.compare(V.ast.Gt(), list(entries[k][i:]), list(entries[best][i:]))
            if it.st.branch(gt if isinstance(gt, (bool, SBool)) else it.truthy(gt), 'spec:greater'): best = k
        want.append(F[best])
    def member(v, xs): return any(it.known_eq(v, y) for y in xs)
    ok = len(got) == len(want) and all(member(w, got) for w in want) and all(member(g, want) for g in got)
    st.oblige(f'{name}:one-entry-per-prefix-the-segmentwise-greatest', ok, ('C09', 'C18'), info={'got': repr(got)[:300], 'want': repr(want)[:300]})
    return 'ok'

def run_get_last(it, st, T):
    x, vals = C.mk_typed(it, st, T)
    keys = [k for k, _ in vals]; key = keys[-1]
    st.inputs['type'] = T; st.inputs['values'] = [v for _, v in vals]
    Sid = C.sid_class(it)
    # abstract finder answer: empty Sid / a typed Sid with the key / a typed Sid of the parent type (without the key)
    which = st.pick(3, 'finder-answer')
    if which == 0: ans = it.call(Sid, [], {})
    elif which == 1: ans, _ = C.mk_typed(it, st, T, tag='f')
    else:
        pt = [t for t, sp in C.spec_templates().items() if [k for k, _ in sp] == keys[:-1]]
        if not pt: return 'skip'
        ans, _ = C.mk_typed(it, st, pt[0], tag='f')
    asked = []
    def find_one(it_, search, as_sid=True): asked.append(search); return ans
    stub = PClass('FindInAll', [V.OBJECT]); stub.ns['find_one'] = PBuiltin(find_one, 'find_one')
    it.module('spil').ns['FindInAll'] = stub
    name = 'C09:DataSid.get_last'
    try: r = it.call(it.getattr(x, 'get_last'), [key], {})
    except Raised as e:
        st.oblige(f'{name}:raises-nothing', False, ('C09',), info={'exception': V.exc_name(e)}); st.observed = {'raises': V.exc_name(e)}; return 'ok'
    st.observed = {'which': which}
    empty = isinstance(r, PObj) and not r.attrs['_fields'].items and r.attrs['_type'] == ''
    carries = which == 1 and it.is_true(ans.attrs['_fields'].items[-1][1], 'spec:key-value-non-empty')
    st.oblige(f'{name}:answer-of-the-finder-if-it-carries-the-key-else-empty', (r is ans) if carries else empty, ('C09', 'C18'))
    # the finder was asked for this Sid with '>' at the key
    okq = len(asked) == 1 and isinstance(asked[0], PObj)
    if okq:
        f = asked[0].attrs['_fields']
        okq = isinstance(f, PDict) and [k for k, _ in f.items] == keys and it.py_eq(f.items[-1][1], '>') is True and all(it.py_eq(a[1], b[1]) is True or it.known_eq(a[1], b[1]) for a, b in zip(f.items[:-1], vals[:-1]))
    st.oblige(f'{name}:asks-the-finder-for-this-sid-with-last-at-the-key', okq, ('C09', 'C18'))
    return 'ok'

# ------------------------------------------------------------------ native side
def _native_sorted(T, search, entries):
    from spil.sid.read.finders.find_glob import FindByGlob
    from spil import Sid
    class Stub(FindByGlob):
        def star_search(self, search_sids, as_sid=False, do_sort=False): return list(entries)
    return list(Stub().sorted_search([Sid(T + ':' + search)], as_sid=False))
def py_want(entries, i):
    groups = {}
    for e in entries:
        s = e.split('/'); groups.setdefault(tuple(s[:i]), []).append(s)
    return sorted('/'.join(max(v, key=lambda s: s[i:])) for v in groups.values())
def crosscheck(case, conc, exp):
    if case[0] not in ('sorted', 'concrete'): return {'status': 'agree', 'note': 'abstract finder: no native counterpart'}
    try: got = {'result': _native_sorted(conc['type'], conc['search'], conc['entries'])}
    except BaseException as e: got = {'raises': type(e).__name__}
    if got != exp: return {'status': 'diverged', 'input': conc, 'cpython': got, 'engine': exp}
    return {'status': 'agree'}
def replay(case, ob, inputs):
    if case[0] not in ('sorted', 'concrete'):
        return {'confirmed': False, 'call': 'get_last against an abstract finder', 'observed': repr(ob.get('info')), 'expected': 'see contract'}
    r = C.call_native(_native_sorted, inputs['type'], inputs['search'], inputs['entries'])
    want = py_want(inputs['entries'], inputs['index'])
    ok = r[0] == 'ret' and sorted(r[1]) == want
    return {'confirmed': not ok, 'call': f"sorted_search over entries {inputs['entries']!r} for {inputs['search']!r}", 'observed': repr(r)[:300], 'expected': repr(want)[:300],
            'reproducer': "from spil import FindInList; list(FindInList(%r).find(%r, as_sid=False))" % (inputs['entries'], inputs['search'])}
