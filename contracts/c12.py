"""
C12 -- exists, find_one, children and siblings agree with find.

Functions under contract (real source): finder.Finder.find_one, Finder.exists, read.util.first, sid.DataSid.exists / children / siblings / siblings_as,
  TypedSid.is_leaf, FindInList.star_search (as_sid flag).
Modular: `find` is abstract -- a stub Finder whose find() yields an arbitrary list of 0..2 non-empty symbolic strings (what a Finder yields with
as_sid=False); FindInAll is replaced by such a stub in the DataSid harness, which also records the search it is asked.

ensures   find_one(s, as_sid=False) == first element of find(s) or None ; find_one(s, as_sid=True) == Sid(that) (the empty Sid for none)
          exists(s) <=> find(s) yields something
          star_search(as_sid=True) yields Sid(e) for exactly the entries e that as_sid=False yields, in the same order
          x.exists(): False for an untyped Sid, else the finder's exists(x) ; x.children(): [] for a leaf Sid (one that has its basetype's leaf key),
          else list(find(x / '*')) ; x.siblings_as(k): [] if k is not a field, else list(find(x.get_as(k).get_with(k='*'))) ; siblings() == siblings_as(keytype)
          the search asked for children is the typed search x/'*' whose parent is x; for siblings it has the parent of x.get_as(k) and '*' at k.
frame     the read-only methods of the Finder / Getter classes store nothing into self or module globals, so a later call on changed data is not
          answered from an earlier call's results (syntactic modifies-clause check over the class sources).
Not claimed: 'whatever exists on the file system has an existing parent' and membership in terms of real data (needs FindInPaths / C11).
"""
from __future__ import annotations
import z3
from pyvc.sstr import SStr, S, SBool, Var, simp, zb, OutsideSubset
from pyvc import interp as V
from pyvc.interp import PDict, PObj, PClass, Raised, Lazy, interleave, PBuiltin, GenList
from . import common as C
from .c04 import restrict_reserved

PROPERTY = 'C12'
FUNCTIONS = {'spil/sid/read/finder.py': ['Finder.find_one', 'Finder.exists'], 'spil/sid/read/util.py': ['first'],
             'spil/sid/sid.py': ['DataSid.exists', 'DataSid.children', 'DataSid.siblings', 'DataSid.siblings_as', 'TypedSid.is_leaf', 'TypedSid.get_as', 'TypedSid.get_with', 'StringSid.__truediv__'],
             'spil/sid/read/finders/find_list.py': ['FindInList.star_search']}
TRUSTED = ['next(iter(x)) on the eager list that models a generator']
ASSUMPTIONS = ['find is abstract (arbitrary 0..2 non-empty strings); FindInAll is a stub in the DataSid harness (its dispatch is configuration-dependent: C11)',
               "A-reserved for the Sid under test (no '?', ':', blank in free-text values); search symbols whole-segment"]
BOUNDED = ['find yields at most 2 entries in the harness (first / emptiness are the only things the functions observe)']
EXPLANATION = 'find_one / exists against an abstract find; DataSid delegation and the searches it builds, for every template'
BUDGET_S = {'quick': 600, 'thorough': 1800}

def cases(tier):
    cs = [('find_one', n) for n in (0, 1, 2)] + [('frame',)]
    for T in C.spec_templates():
        cs += [('children', T), ('siblings', T), ('exists', T)]
    cs += [('exists', None), ('children', None)]
    small = [T for T in C.spec_templates() if len(C.spec_templates()[T]) <= 3]
    for T in small: cs.append(('as_sid', T))
    return cs

def run(it, st, case):
    k = case[0]
    if k == 'frame':
        st.inputs['scan'] = 'finder / getter classes'; C.frame_scan_obligations(it, st, 'C12:finders', ('C12', 'C13')); st.observed = {}; return 'ok'
    if k == 'find_one': return run_find_one(it, st, case[1])
    if k == 'as_sid': return run_as_sid(it, st, case[1])
    return run_data(it, st, k, case[1])

def run_find_one(it, st, n):
    fm = it.module('spil.sid.read.finder'); Finder = fm.ns['Finder']
    F = [st.fresh_str(f'f{i}_', excl=set('?'), nonempty=True) for i in range(n)]     # what a Finder yields are Sid strings without query
    st.inputs['found'] = list(F)
    calls = []
    def find(it_, search, as_sid=True): calls.append(as_sid); return GenList(list(F))
    stub = PClass('StubFinder', [Finder], fm); stub.ns['find'] = PBuiltin(find, 'find')
    f = PObj(stub); s = SStr([st.fresh('q')])
    name = 'C12:Finder'
    try:
        a = it.call(it.getattr(f, 'find_one'), [s], {'as_sid': False})
        b = it.call(it.getattr(f, 'find_one'), [s], {'as_sid': True})
        e = it.call(it.getattr(f, 'exists'), [s], {})
    except Raised as ex:
        st.oblige(f'{name}.find_one/exists:raises-nothing', False, ('C12',), info={'exception': V.exc_name(ex)}); return 'ok'
    st.oblige(f'{name}.find_one:as_sid-False-is-the-first-found-or-None', (a is None) if n == 0 else (a is F[0] or it.py_eq(a, F[0]) is True), ('C12',))
    if n == 0:
        st.oblige(f'{name}.find_one:as_sid-True-is-the-empty-Sid-when-nothing-is-found', isinstance(b, PObj) and not b.attrs['_fields'].items and b.attrs['_string'] == '', ('C12',))
    else:
        Sid = C.sid_class(it)
        try: want = it.call(Sid, [F[0]], {})
        except (OutsideSubset, Raised): want = None
        st.oblige(f'{name}.find_one:as_sid-True-is-Sid-of-the-first-found', want is not None and isinstance(b, PObj) and it.py_eq(b.attrs['_string'], want.attrs['_string']) is True and it.py_eq(b.attrs['_type'], want.attrs['_type']) is True, ('C12',))
    st.oblige(f'{name}.exists:true-exactly-when-find-yields-something', e is (n > 0) or (isinstance(e, bool) and e == (n > 0)), ('C12',), info={'exists': repr(e)})
    st.observed = {'n': n}
    return 'ok'

def run_as_sid(it, st, T):
    from .c08 import spec_glob2re, re_match
    it.world.specs['spil.sid.read.finders.find_list:glob2re'] = spec_glob2re
    fl = it.module('spil.sid.read.finders.find_list'); it.module('re').ns['match'] = PBuiltin(re_match, 're.match')
    x, vals = C.mk_typed(it, st, T, tag='s'); restrict_reserved(st, vals)
    for _, v in vals:
        for a in st.norm(v).atoms:
            if isinstance(a, Var) and a.name not in st.domain: st.excl.setdefault(a.name, set()).update('* ')
    e, evals = C.mk_typed(it, st, T, tag='e'); restrict_reserved(st, evals)
    for _, v in evals:
        for a in st.norm(v).atoms:
            if isinstance(a, Var): st.excl.setdefault(a.name, set()).update(' ')
    L = [e.attrs['_string'], st.fresh_str('junk', excl=set('?: '))]
    st.inputs['list'] = list(L)
    name = 'C12:FindInList.star_search'
    try:
        f1 = it.call(fl.ns['FindInList'], [list(L)], {}); f2 = it.call(fl.ns['FindInList'], [list(L)], {})
        a = list(it.call(it.getattr(f1, 'star_search'), [[x]], {'as_sid': False}))
        b = list(it.call(it.getattr(f2, 'star_search'), [[x]], {'as_sid': True}))
    except Raised as ex:
        st.oblige(f'{name}:raises-nothing', False, ('C12',), info={'exception': V.exc_name(ex)}); return 'ok'
    ok = len(a) == len(b) and all(isinstance(y, PObj) and it.py_eq(y.attrs['_string'] if not isinstance(y.attrs['_string'], SStr) or True else None, s_) is True or (isinstance(y, PObj) and it.known_eq(it.to_str(y), s_)) for y, s_ in zip(b, a))
    st.oblige(f'{name}:as_sid-only-wraps-the-same-entries-in-the-same-order', ok, ('C12',), info={'strings': repr(a)[:200]})
    st.observed = {'n': len(a)}
    return 'ok'

def run_data(it, st, kind, T):
    Sid = C.sid_class(it)
    if T is None:
        x = PObj(Sid); s = SStr([st.fresh('u', excl=set('?: '))]); x.attrs.update({'_string': s, '_type': '', '_fields': PDict()}); vals = []
    else:
        x, vals = C.mk_typed(it, st, T); restrict_reserved(st, vals)
        for _, v in vals:
            for a in st.norm(v).atoms:
                if isinstance(a, Var):
                    st.excl.setdefault(a.name, set()).update(' ')
                    if a.name not in st.domain: st.excl[a.name].update('>*,')
    keys = [k for k, _ in vals]
    st.inputs['type'] = T or ''; st.inputs['values'] = [v for _, v in vals]
    asked = []; answer = [st.fresh_str('r0_', nonempty=True)]
    def find(it_, search, as_sid=True): asked.append(('find', search, as_sid)); return GenList([C.sid_class(it_) and a for a in answer])
    ex_ans = st.pick(2, 'finder-exists') == 1
    def exists(it_, search): asked.append(('exists', search)); return ex_ans
    stub = PClass('FindInAll', [V.OBJECT]); stub.ns['find'] = PBuiltin(find, 'find'); stub.ns['exists'] = PBuiltin(exists, 'exists')
    it.module('spil').ns['FindInAll'] = stub
    name = f'C12:DataSid.{kind}'
    try:
        if kind == 'exists': r = it.call(it.getattr(x, 'exists'), [], {})
        elif kind == 'children': r = it.call(it.getattr(x, 'children'), [], {})
        else:
            r = it.call(it.getattr(x, 'siblings'), [], {}) if keys else it.call(it.getattr(x, 'siblings_as'), ['project'], {})
    except Raised as ex_:
        st.oblige(f'{name}:raises-nothing', False, ('C12',), info={'exception': V.exc_name(ex_), 'args': repr(ex_.exc.attrs.get('args'))[:120]}); st.observed = {'raises': V.exc_name(ex_)}; return 'ok'
    st.observed = {'kind': kind}
    if kind == 'exists':
        if not keys: st.oblige(f'{name}:untyped-sid-does-not-exist', r is False and not asked, ('C12',))
        else: st.oblige(f'{name}:is-the-finders-answer-for-this-sid', r is ex_ans and len(asked) == 1 and asked[0][1] is x, ('C12',))
        return 'ok'
    if kind == 'children':
        leaf_key = C.conf('leaf_keys').get(T.split(C.conf('sidtype_keytype_sep'))[0]) if T else C.conf('leaf_keys').get(None)
        is_leaf = bool(keys) and leaf_key in keys and it.is_true(dict(vals)[leaf_key], 'spec:leaf-value-non-empty')
        if is_leaf:
            st.oblige(f'{name}:a-leaf-sid-has-no-children', isinstance(r, list) and not r and not asked, ('C12',)); return 'ok'
        ok = isinstance(r, list) and len(r) == len(answer) and len(asked) == 1 and asked[0][0] == 'find'
        st.oblige(f'{name}:is-what-the-finder-finds-for-sid-slash-star', ok and all(a is b for a, b in zip(r, answer)), ('C12',))
        if ok and keys:
            q = asked[0][1]
            okq = isinstance(q, PObj) and it.py_eq(q.attrs['_string'], it.concat([x.attrs['_string'], '/*'])) is True
            # the asked search, if typed, has this Sid as parent
            if okq and q.attrs['_fields'].items:
                p = it.getattr(q, 'parent')
                okq = isinstance(p, PObj) and it.py_eq(p.attrs['_string'], x.attrs['_string']) is True
            st.oblige(f'{name}:asks-for-the-sids-whose-parent-is-this-sid', okq, ('C12',))
        return 'ok'
    # siblings
    if not keys:
        st.oblige(f'{name}:untyped-or-unknown-key-gives-no-siblings', isinstance(r, list) and not r, ('C12',)); return 'ok'
    ok = isinstance(r, list) and len(r) == len(answer) and len(asked) == 1 and all(a is b for a, b in zip(r, answer))
    st.oblige(f'{name}:is-what-the-finder-finds-for-the-sibling-search', ok, ('C12',))
    if ok:
        q = asked[0][1]
        okq = isinstance(q, PObj)
        if okq and q.attrs['_fields'].items:
            f = q.attrs['_fields'].items
            okq = [k for k, _ in f] == keys and it.py_eq(f[-1][1], '*') is True and all(it.py_eq(a[1], b[1]) is True or it.known_eq(a[1], b[1]) for a, b in zip(f[:-1], vals[:-1]))
        elif okq:
            okq = it.py_eq(q.attrs['_string'], it.concat(interleave('/', [v for _, v in vals[:-1]] + ['*']))) is True      # untyped fallback keeps the search string
        st.oblige(f'{name}:asks-for-the-sids-sharing-the-parent', okq, ('C12',))
    return 'ok'

def crosscheck(case, conc, exp): return {'status': 'agree', 'note': 'abstract finder: no native counterpart'}
def replay(case, ob, inputs):
    return {'confirmed': False, 'call': f'{case!r} against an abstract finder', 'observed': repr(ob.get('info')), 'expected': 'see the contract clause named by the obligation'}
