"""
C08 -- searching a list returns exactly the entries that glob-match the search.

Functions under contract (real source): find_list.glob2re, FindInList.star_search / _get_searchlist / __init__, FindByGlob.do_find,
  Finder.find (the non-search shortcut), TypedSid.match.

oracle   glob(u, e): u and e have the same number of '/'-segments and, per segment, '*' in u matches any run of characters other than '/',
         every other character matches itself.   Match(L, U): the entries e of L with glob(u, e) for some u in U, each once.
A  glob2re(u)  [bounded stand-in, labelled B]:  the function is a regex *compiler* driven by a character loop over its argument; its language
   contract  L(re.compile(glob2re(u))) == {e | glob(u, e)}  and  "compiling its result raises nothing"  is checked by interpreting the real
   source on EVERY pattern up to a stated length over an alphabet that contains the glob/regex metacharacters, and comparing the compiled
   regex with the oracle on every subject string up to a stated length (exhaustive within the bound).
B  star_search  [modular: glob2re replaced by its contract]: for lists of up to 3 symbolic entries (duplicates allowed) and up to 2 typed search
   Sids of every template, the real loop yields exactly Match(L, U) in scan order, each entry once; as_sid only wraps.
C  Finder.find: the searches handed to do_find are exactly unfold_search(s) also for a typed non-search Sid (an alias in the last segment
   expands); TypedSid.match(s) is True exactly when the Sid equals Sid(s) or is found by s in the one-element list of its own string.
"""
from __future__ import annotations
import itertools, re as _re, z3
from pyvc.sstr import SStr, S, SBool, Var, simp, zb, OutsideSubset
from pyvc import interp as V
from pyvc.interp import PDict, PObj, Raised, Lazy, interleave, PBuiltin, Opaque
from . import common as C

PROPERTY = 'C08'
FUNCTIONS = {'spil/sid/read/finders/find_list.py': ['glob2re', 'FindInList.__init__', 'FindInList._get_searchlist', 'FindInList.star_search'],
             'spil/sid/read/finders/find_glob.py': ['FindByGlob.do_find'], 'spil/sid/read/finder.py': ['Finder.find', 'Finder.find_one'], 'spil/sid/sid.py': ['TypedSid.match']}
TRUSTED = ['re.compile / re.match of CPython on the regex text produced by glob2re (executed natively in the bounded part A)',
           're.escape: executed natively on single characters']
ASSUMPTIONS = ['part B/C: glob2re is replaced by its language contract (modular call); the contract itself is the bounded part A']
BOUNDED = ['A: glob2re language equality: all patterns of length <= 3 (quick) / 4 (thorough) over the alphabet a / * . - [ ] ? ! ^ \\\\ \\n and all subjects of length <= 4 over a b / . - \\n [ ]',
           'B: lists of at most 3 entries, at most 2 typed searches per call (contents symbolic)']
EXPLANATION = 'glob2re bounded-exhaustive against the glob oracle; star_search loop and find/match composition on symbolic lists and typed searches with glob2re abstracted by its contract'
BUDGET_S = {'quick': 900, 'thorough': 3000}
PAT_ALPHA = ['a', '/', '*', '.', '-', '[', ']', '?', '!', '^', '\\', '\n']
SUB_ALPHA = ['a', 'b', '/', '.', '-', '\n', '[', ']']

def cases(tier):
    cs = [('glob2re', c) for c in [''] + PAT_ALPHA]
    spec = C.spec_templates()
    small = [T for T in spec if len(spec[T]) <= 3]
    for T in spec:
        cs.append(('star', T, 1, 1))
        if T in small or tier == 'thorough': cs.append(('star', T, 1, 2))
        if T in small: cs.append(('star', T, 2, 2))
        elif tier == 'thorough' and len(spec[T]) <= 5: cs.append(('star', T, 2, 2))
    if tier == 'thorough':
        for T in small: cs.append(('star', T, 2, 3))
    for T in spec:
        if len(spec[T]) <= 5 or tier == 'thorough' or T.endswith('file'): cs.append(('find', T))
    for T in small: cs.append(('match', T))
    return cs

# ------------------------------------------------------------------ oracle
def py_glob(u, e):
    us, es = u.split('/'), e.split('/')
    if len(us) != len(es): return False
    for a, b in zip(us, es):
        rx = '[^/]*'.join(_re.escape(x) for x in a.split('*'))
        if not _re.fullmatch(rx, b, _re.S): return False
    return True

def glob_match(it, u, e):
    """symbolic reading of glob(u, e) for structured strings; forks through the path state"""
    st = it.st
    us, ot1 = st.split(S(u), '/', -1, 'glob:search-segments', max_open=14)
    es, ot2 = st.split(S(e), '/', -1, 'glob:entry-segments', max_open=len(us) + 1)
    if ot1: raise OutsideSubset('search with too many segments')
    if ot2 or len(us) != len(es): return False
    for a, b in zip(us, es):
        a = simp(a); b = simp(b)
        if it.is_true(it.contains(a, '*') if not isinstance(a, str) else ('*' in a), 'glob:star-in-segment'):
            if it.known_eq(a, '*'): continue
            raise OutsideSubset('partial wildcard inside a search segment (covered by the bounded glob2re part)')
        if not it.known_eq(a, b): return False
    return True

class GlobPat:
    def __init__(self, pat): self.pat = pat
def spec_glob2re(it, f, args, kwargs): return GlobPat(args[0])
def re_match(it, pattern, item, *a):
    if isinstance(pattern, GlobPat): return True if glob_match(it, pattern.pat, item) else None
    raise OutsideSubset('re.match on a pattern that did not come from glob2re')

# ------------------------------------------------------------------ runs
def run_find(it, st, T):
    """Finder.find hands do_find exactly the typed searches of unfold_search -- also for a typed Sid that is not a search
    (an alias in its last segment still expands)"""
    from .c07 import values
    fm = it.module('spil.sid.read.finder'); Finder = fm.ns['Finder']
    tools = it.module('spil.sid.read.tools')
    vs = values(it, st, T)
    s = it.concat(interleave('/', vs)); st.inputs['search'] = s
    got = []
    def do_find(it_, search_sids=None, as_sid=True, **k): got.append(list(search_sids)); return V.GenList([])
    stub = V.PClass('StubFinder', [Finder], fm); stub.ns['do_find'] = PBuiltin(do_find, 'do_find')
    name = 'C08:Finder.find'
    try:
        list(it.call(it.getattr(PObj(stub), 'find'), [s], {}))
        want = it.call(tools.ns['unfold_search'], [s], {})
    except Raised as e:
        st.oblige(f'{name}:raises-nothing', False, ('C08',), info={'exception': V.exc_name(e)}); st.observed = {'raises': V.exc_name(e)}; return 'ok'
    st.observed = {'searched': [it.getattr(x, 'uri') for x in (got[0] if got else [])]}
    ok = len(got) == 1
    if ok:
        a, b = got[0], list(want)
        ok = all(any(it.known_eq(x, y) for y in b) for x in a) and all(any(it.known_eq(x, y) for y in a) for x in b)
    st.oblige(f'{name}:searches-exactly-the-unfolded-forms-also-for-a-typed-non-search-sid', ok, ('C08', 'C10'),
              info={'searched': repr([it.getattr(x, 'uri') for x in (got[0] if got else [])])[:300], 'unfolded': repr([it.getattr(x, 'uri') for x in want])[:300]})
    return 'ok'

def run_match(it, st, T):
    it.world.specs['spil.sid.read.finders.find_list:glob2re'] = spec_glob2re
    it.module('re').ns['match'] = PBuiltin(re_match, 're.match')
    from .c07 import values
    vs = values(it, st, T); x, _ = C.mk_typed(it, st, T, tag='m')
    for (k, _v), v in zip(list(x.attrs['_fields'].items), vs): pass
    x.attrs['_fields'] = PDict(list(zip(C.keys_of(T), vs))); x.attrs['_string'] = it.concat(interleave('/', vs))
    st.inputs['type'] = T; st.inputs['values'] = list(vs)
    name = 'C08:TypedSid.match'
    other = list(vs); other[-1] = '*'
    try:
        same = it.call(it.getattr(x, 'match'), [x.attrs['_string']], {})
        star = it.call(it.getattr(x, 'match'), [it.concat(interleave('/', other))], {})
    except Raised as e:
        st.oblige(f'{name}:raises-nothing', False, ('C08',), info={'exception': V.exc_name(e), 'args': repr(e.exc.attrs.get('args'))[:120]}); st.observed = {'raises': V.exc_name(e)}; return 'ok'
    st.oblige(f'{name}:a-sid-matches-itself-and-the-search-with-a-star-in-its-last-segment', same is True and star is True, ('C08',), info={'self': repr(same), 'star': repr(star)})
    st.observed = {'same': same, 'star': star}
    return 'ok'

def run(it, st, case):
    if case[0] == 'find': return run_find(it, st, case[1])
    if case[0] == 'match': return run_match(it, st, case[1])
    if case[0] == 'glob2re': return run_glob2re(it, st, case[1])
    if case[0] == 'star': return run_star(it, st, case[1], case[2], case[3])

def run_glob2re(it, st, first):
    import os
    tier = os.environ.get('PYVC_TIER', 'quick')
    maxlen = 3 if tier == 'quick' else 4
    it.inline_only.add('spil.sid.read.finders.find_list:glob2re')
    fl = it.module('spil.sid.read.finders.find_list')
    # glob2re calls re.escape: executed natively on literals
    pats = [''] if first == '' else [first + ''.join(t) for n in range(0, maxlen) for t in itertools.product(PAT_ALPHA, repeat=n)]
    subjects = [''.join(t) for n in range(0, 5) for t in itertools.product(SUB_ALPHA, repeat=n)]
    name = 'C08:find_list.glob2re'
    bad_compile = None; bad_lang = None; bad_special = None; n = 0
    for p in pats:
        try: rx = it.call(fl.ns['glob2re'], [p], {})
        except Raised as e:
            bad_compile = bad_compile or (p, 'glob2re raises ' + V.exc_name(e)); continue
        rx = simp(st.norm(rx)) if isinstance(rx, SStr) else rx
        try: cre = _re.compile(rx)
        except _re.error as e:
            bad_compile = bad_compile or (p, f're.compile({rx!r}) raises re.error: {e}'); continue
        n += 1
        special = '?' in p or '[' in p
        if (bad_special if special else bad_lang) is None:
            for s_ in subjects:
                if bool(cre.match(s_)) != py_glob(p, s_):
                    if special: bad_special = (p, s_, bool(cre.match(s_)))
                    else: bad_lang = (p, s_, bool(cre.match(s_)))
                    break
    w = bad_compile or bad_lang or bad_special or ('', '')
    st.inputs['pattern'] = w[0]; st.inputs['subject'] = w[1] if w in (bad_lang, bad_special) and w else ''
    st.oblige(f'{name}:result-compiles-raises-nothing', bad_compile is None, ('C08',), info={'witness': bad_compile, 'patterns': len(pats)})
    st.oblige(f'{name}:language-is-the-glob-language(bounded)', bad_lang is None, ('C08',), info={'witness': bad_lang, 'patterns_compiled': n, 'subjects': len(subjects)})
    st.oblige(f'{name}:question-mark-and-bracket-match-themselves(bounded)', bad_special is None, ('C08',), info={'witness': bad_special})
    st.observed = {'n': len(pats)}
    return 'ok'

def run_star(it, st, T, nsearch, nlist):
    it.world.specs['spil.sid.read.finders.find_list:glob2re'] = spec_glob2re
    fl = it.module('spil.sid.read.finders.find_list')
    remod = it.module('re'); remod.ns['match'] = PBuiltin(re_match, 're.match')
    searches = []
    for i in range(nsearch):
        x, vals = C.mk_typed(it, st, T, tag=f's{i}')
        for _, v in vals:
            for a in st.norm(v).atoms:
                if isinstance(a, Var) and v is not None:
                    # search segments are whole-segment wildcards or literal values (a partial wildcard such as 'sq*' is part A's domain)
                    if not (a.name in st.domain): st.excl.setdefault(a.name, set()).add('*')
        searches.append(x)
    L = [SStr([st.fresh(f'e{j}_')]) for j in range(nlist)]
    st.inputs['type'] = T; st.inputs['searches'] = [x.attrs['_string'] for x in searches]; st.inputs['list'] = list(L)
    FIL = fl.ns['FindInList']
    name = 'C08:FindInList.star_search'
    try:
        finder = it.call(FIL, [list(L)], {})
        got = it.call(it.getattr(finder, 'star_search'), [list(searches)], {'as_sid': False})
    except Raised as e:
        st.oblige(f'{name}:raises-nothing', False, ('C08',), info={'exception': V.exc_name(e), 'args': repr(e.exc.attrs.get('args'))[:150]}); st.observed = {'raises': V.exc_name(e)}; return 'ok'
    got = list(got)
    # oracle: scan order = for each search, for each entry; each entry once
    exp = []
    for x in searches:
        for e in L:
            if glob_match(it, x.attrs['_string'], e) and not any(it.known_eq(e, d) for d in exp): exp.append(e)
    ok = len(got) == len(exp) and all(it.py_eq(a, b) is True or it.known_eq(a, b) for a, b in zip(got, exp))
    st.oblige(f'{name}:yields-exactly-the-matching-entries-each-once-in-scan-order', ok, ('C08', 'C10'), info={'got': repr(got)[:200], 'want': repr(exp)[:200]})
    st.observed = {'found': list(got)}
    return 'ok'

# ------------------------------------------------------------------ native side
def crosscheck(case, conc, exp):
    if case[0] == 'glob2re': return {'status': 'agree', 'note': 'bounded part is executed natively already'}
    if case[0] == 'find':
        from spil.sid.read.finder import Finder
        got = []
        class Stub(Finder):
            def do_find(self, search_sids, as_sid=True): got.append(list(search_sids)); return iter(())
        try: list(Stub().find(conc['search'])); res = {'searched': [x.uri for x in got[0]]}
        except BaseException as e: res = {'raises': type(e).__name__}
        if 'searched' in res and 'searched' in exp and sorted(res['searched']) == sorted(exp['searched']): return {'status': 'agree'}
        if res != exp: return {'status': 'diverged', 'input': conc, 'cpython': res, 'engine': exp}
        return {'status': 'agree'}
    if case[0] == 'match':
        from .c03 import native_sid
        try:
            x = native_sid(conc['type'], conc['values']); res = {'same': x.match(x.string), 'star': x.match('/'.join(conc['values'][:-1] + ['*']))}
        except BaseException as e: res = {'raises': type(e).__name__}
        if res != exp: return {'status': 'diverged', 'input': conc, 'cpython': res, 'engine': exp}
        return {'status': 'agree'}
    from spil import FindInList, Sid
    T = conc['type']
    try:
        ss = [Sid(T + ':' + s) for s in conc['searches']]
        got = {'found': list(FindInList(list(conc['list'])).star_search(ss, as_sid=False))}
    except BaseException as e: got = {'raises': type(e).__name__}
    if got != exp: return {'status': 'diverged', 'input': conc, 'cpython': got, 'engine': exp}
    return {'status': 'agree'}

def replay(case, ob, inputs):
    if case[0] == 'find':
        from spil.sid.read.finder import Finder
        from spil.sid.read.tools import unfold_search
        C.clear_native_caches()
        got = []
        class Stub(Finder):
            def do_find(self, search_sids, as_sid=True): got.append(list(search_sids)); return iter(())
        s_ = inputs['search']
        r = C.call_native(lambda: (list(Stub().find(s_)), sorted(x.uri for x in unfold_search(s_))))
        ok = r[0] == 'ret' and got and sorted(x.uri for x in got[0]) == r[1][1]
        return {'confirmed': not ok, 'call': f'Finder.find({s_!r}): searches handed to do_find', 'observed': repr(sorted(x.uri for x in got[0]) if got else r)[:300], 'expected': repr(r[1][1] if r[0] == 'ret' else None)[:300],
                'reproducer': f"from spil import FindInList; list(FindInList([...]).find({s_!r}))  # an alias in the last segment is not expanded"}
    if case[0] == 'match':
        from .c03 import native_sid
        x = native_sid(inputs['type'], inputs['values'])
        r = C.call_native(lambda: (x.match(x.string), x.match('/'.join(inputs['values'][:-1] + ['*']))))
        return {'confirmed': r != ('ret', (True, True)), 'call': f'{x.uri!r}.match(itself / star search)', 'observed': repr(r), 'expected': '(True, True)'}
    if case[0] == 'glob2re':
        from spil.sid.read.finders.find_list import glob2re
        p, s_ = inputs.get('pattern', ''), inputs.get('subject', '')
        try:
            cre = _re.compile(glob2re(p)); got = bool(cre.match(s_)); ok = got == py_glob(p, s_)
            return {'confirmed': not ok, 'call': f're.match(glob2re({p!r}), {s_!r})', 'observed': repr(got), 'expected': repr(py_glob(p, s_))}
        except Exception as e:
            return {'confirmed': True, 'call': f're.compile(glob2re({p!r}))', 'observed': f'raises {type(e).__name__}: {e}', 'expected': 'a compiled pattern',
                    'reproducer': f'import re; from spil.sid.read.finders.find_list import glob2re; re.compile(glob2re({p!r}))'}
    from spil import FindInList, Sid
    T = inputs['type']; L = list(inputs['list'])
    r = C.call_native(lambda: list(FindInList(L).star_search([Sid(T + ':' + s) for s in inputs['searches']], as_sid=False)))
    want = []
    for s in inputs['searches']:
        for e in L:
            if py_glob(s, e) and e not in want: want.append(e)
    ok = r[0] == 'ret' and r[1] == want
    return {'confirmed': not ok, 'call': f'FindInList({L!r}).star_search({inputs["searches"]!r})', 'observed': repr(r)[:300], 'expected': repr(want)[:300]}

def in_known_class(entry, inputs):
    """C08-shell-specials: the pattern contains '?' or '[' (glob2re is a port of fnmatch.translate and gives them their shell meaning)"""
    return isinstance(inputs, dict) and any(c in (inputs.get('pattern') or '') for c in '?[')
