"""
C15 -- created entities exist, and attribute data reads back what was written.

Functions under contract (real source): write_paths.WriteToPaths.create / update / set, write_paths._create_parent / _write_data,
  getter_paths.GetFromPaths.get_data, spil_data_conf.get_data_json_path.      Ghost state: pyvc.fsmodel (primitives assumed, see C17).

Transition contracts over the ghost file system fs (x: one concrete example Sid per template; data and the stored document symbolic):
  create(x [, data])  x has no path, or its path exists      -> raises SpilException, fs unchanged
                      otherwise                              -> True; afterwards the path and every ancestor exist, no other path changed
                                                                (except the sidecar: sidecar' == overlay(sidecar, data) -- a new entity may share
                                                                 the sidecar of a sibling that differs by the file extension only)
  update(x, data) / set(x, k=v)   x has no path or is absent -> raises SpilException, fs unchanged
                      otherwise                              -> True; sidecar' == overlay(sidecar, data); no other path changed
  get_data(x) == document(sidecar) + {'sid': encode(x)}       (reads have no effect)
  lemma  sidecar(p1) == sidecar(p2)  =>  p1 and p2 have the same parent and the same stem (they differ at most by the last suffix)
The history statement (overlay in call order, persistence across Getter instances / processes, independence of other entities) is the induction
these transition contracts give: every operation's effect on fs is stated completely (frame included), and reads are functions of fs.
Not claimed: 'is found by every matching search' (needs FindInPaths: C11).
"""
from __future__ import annotations
import z3
from pyvc.sstr import SStr, S, SBool, Var, simp, zb, OutsideSubset
from pyvc import interp as V
from pyvc.interp import PDict, PObj, PClass, Raised, Lazy, interleave, PBuiltin
from pyvc import world as W, fsmodel as FS
from . import common as C
from .c05 import path_types, configs
from .c17 import doc_eq, getter, _is_ancestor, _is_tmp_of

PROPERTY = 'C15'
FUNCTIONS = {'spil/sid/pathops/write_paths.py': ['WriteToPaths.create', 'WriteToPaths.update', 'WriteToPaths.set', '_create_parent', '_write_data'],
             'spil/sid/pathops/getter_paths.py': ['GetFromPaths.get_data'], 'spil_hamlet_conf/spil_data_conf.py': ['get_data_json_path']}
TRUSTED = ['pathlib / os / json / shutil primitives as modelled in pyvc.fsmodel (assumed contracts)']
ASSUMPTIONS = ['one concrete example Sid per template; data documents symbolic (two stored entries, one or two written pairs)',
               "'is found by every matching search' and visibility to a new process are consequences of fs being the only state (finders are uncached: C13 scan) -- not proved about a real file system"]
BOUNDED = ['one concrete example Sid per template; the initial states of the ghost file system are enumerated (entity absent / present, sidecar absent / document / owned by a sibling, how much of the ancestor chain exists); stored and written keys and values are symbolic']
EXPLANATION = 'transition contracts of create / update / set / get_data over a ghost file system, for every template, from every relevant initial state; sidecar-name lemma'
BUDGET_S = {'quick': 900, 'thorough': 2400}

def cases(tier):
    cs = []
    c = configs()[0]
    for T in C.spec_templates():
        haspath = T in path_types(c)
        for st0 in (('absent', 'exists') if haspath else ('nopath',)):
            cs.append(('create', T, c, st0, False)); cs.append(('create', T, c, st0, True))
            cs.append(('update', T, c, st0, 'absent' if st0 != 'exists' else 'doc'))
            if st0 == 'exists': cs.append(('update', T, c, st0, 'absent')); cs.append(('set', T, c, st0, 'doc'))
        if haspath:      # the entity is new but its sidecar already holds a document (written through a sibling that differs by the file extension only)
            cs.append(('create', T, c, 'absent+doc', False)); cs.append(('create', T, c, 'absent+doc', True))
            cs.append(('update', T, c, 'absent+doc', 'doc')); cs.append(('set', T, c, 'absent+doc', 'doc'))      # ... and an update of the new entity is still refused
    cs.append(('sidecar-lemma',))
    return cs

def setup(it, st, T, c, exists, sidecar):
    shared = exists.endswith('+doc'); exists = exists.split('+')[0]
    fs = W.install_fs(it)
    it.module('spil').ns['FindInPaths'] = PClass('FindInPaths', [V.OBJECT])
    x, vals = C.mk_concrete(it, T)
    st.inputs['type'] = T; st.inputs['values'] = [v for _, v in vals]; st.inputs['initial'] = [exists, sidecar]
    p = it.call(it.getattr(x, 'path'), [c], {})
    wp = it.module('spil.sid.pathops.write_paths')
    W_ = it.call(wp.ns['WriteToPaths'], [c], {})
    if p is None: return fs, x, None, None, None, None, W_, wp
    ps = it.to_str(p)
    dp = it.to_str(it.call(it.resolve(it.module('spil.conf').ns['get_data_json_path']), [p], {}))
    k0, v0, k1, v1 = (st.fresh_str(h, nonempty=True) for h in ('dk0_', 'dv0_', 'dk1_', 'dv1_'))
    st.assume(st.norm(k0).z() != st.norm(k1).z())
    st.assume(st.norm(k1).z() != z3.StringVal('sid'))          # k0 may be 'sid' itself: the read still carries the entry of the Sid that is read
    D0 = PDict([(k0, v0), (k1, v1)])
    isfile = it.is_true(it.getattr(p, 'suffix'), 'spec:has-suffix')
    nanc = st.pick(3, 'existing-ancestors')       # how much of the ancestor chain exists: all / only the root part / none below the configured root
    root = '/'.join(ps.split('/')[:8]) if isinstance(ps, str) else None
    def initial(path):
        if it.known_eq(path, ps): return ('file' if isfile else 'dir', FS.INVALID) if exists == 'exists' else ('absent', None)
        if it.known_eq(path, dp): return {'absent': ('absent', None), 'doc': ('file', FS.Json(FS.deep_copy(D0)))}[sidecar if exists == 'exists' or shared else 'absent']
        if _is_ancestor(it, path, ps):
            if exists == 'exists' or nanc == 0 or shared: return ('dir', None)
            depth = path.count('/') if isinstance(path, str) else 99
            if nanc == 1: return ('dir', None) if depth <= ps.count('/') - 2 else ('absent', None)
            return ('dir', None) if root and (root == path or root.startswith(path + '/')) else ('absent', None)
        return ('absent', None)
    fs.initial_choices = initial
    return fs, x, p, ps, dp, D0, W_, wp

def unchanged(fs, before):
    now = {id(n[0]): n for n in fs.nodes}
    return all(any(n2[0] is n[0] and n2[1] == n[1] and n2[2] is n[2] for n2 in fs.nodes) for n in before) and all(any(n[0] is n2[0] for n2 in before) or n[1] == 'absent' or False for n in fs.nodes if not any(n[0] is b[0] for b in before)) if True else False

def changed_paths(it, fs, before): return fs.changed_since(before)

def run(it, st, case):
    kind = case[0]
    if kind == 'sidecar-lemma': return run_lemma(it, st)
    _, T, c, st0, extra = case
    fs, x, p, ps, dp, D0, W_, wp = setup(it, st, T, c, st0, extra if kind != 'create' else ('doc' if st0.endswith('+doc') else 'absent'))
    uri = it.to_str(x)
    SpilEx = it.resolve(Lazy('spil.util.exception', 'SpilException'))
    wk, wv = st.fresh_str('wk_', nonempty=True), st.fresh_str('wv_', nonempty=True)          # the written key may be 'sid' too
    data = PDict([(wk, wv)])
    if ps is not None: fs.state(ps); fs.state(dp)
    before = fs.snapshot(); fs.trace = []
    name = f'C15:WriteToPaths.{kind}'
    try:
        if kind == 'create': r = it.call(it.getattr(W_, 'create'), [x] + ([data] if extra else []), {})
        elif kind == 'update': r = it.call(it.getattr(W_, 'update'), [x, data], {})
        else: r = it.call(it.getattr(W_, 'set'), [x], {'attribute': wk, 'value': wv})
        raised = None
    except Raised as e: raised = e; r = None
    st.observed = {'raised': V.exc_name(raised) if raised else None}
    must_fail = (ps is None) or (kind == 'create' and st0 == 'exists') or (kind != 'create' and st0 != 'exists')
    if must_fail:
        st.oblige(f'{name}:refused-with-SpilException', raised is not None and raised.exc.cls.is_sub(SpilEx), ('C15',), info={'raised': V.exc_name(raised) if raised else None, 'returned': repr(r)})
        st.oblige(f'{name}:a-refused-operation-changes-nothing', not changed_paths(it, fs, before), ('C15',), info={'changed': [repr(q)[:80] for q in changed_paths(it, fs, before)]})
        return 'ok'
    if raised is not None:
        st.oblige(f'{name}:raises-nothing-when-applicable', False, ('C15',), info={'exception': V.exc_name(raised), 'args': repr(raised.exc.attrs.get('args'))[:150]}); return 'ok'
    st.oblige(f'{name}:returns-True', r is True, ('C15',), info={'returned': repr(r)})
    ch = changed_paths(it, fs, before)
    g = getter(it, c)
    if kind == 'create':
        exists_now = fs.state(ps)[1] != 'absent'
        anc_ok = True; cur = ps
        while isinstance(cur, str) and cur.count('/') > 1:
            cur = cur.rsplit('/', 1)[0]
            if fs.state(cur)[1] != 'dir': anc_ok = False
        st.oblige(f'{name}:the-entity-and-all-its-ancestors-exist-afterwards', exists_now and anc_ok, ('C15', 'C12'))
        only = all(it.py_eq(q, ps) is True or _is_ancestor(it, q, ps) or (extra and (it.py_eq(q, dp) is True or _is_tmp_of(it, q, dp))) for q in ch)
        st.oblige(f'{name}:nothing-but-the-entity-its-missing-ancestors-and-its-sidecar-changes', only, ('C15',), info={'changed': [repr(q)[:80] for q in ch]})
        try: d = it.call(it.getattr(g, 'get_data'), [x], {})
        except Raised as e: st.oblige(f'{name}:data-reads-back', False, ('C15',), info={'exception': V.exc_name(e)}); return 'ok'
        want = [[k, v] for k, v in D0.items] if st0.endswith('+doc') else []        # a document already in the (shared) sidecar: other keys persist
        if extra:
            hit = [kv for kv in want if it.known_eq(kv[0], wk)]
            if hit: hit[0][1] = wv
            else: want.append([wk, wv])
        st.oblige(f'{name}:data-reads-back' + ('-as-the-overlay-on-a-document-already-in-the-sidecar' if st0.endswith('+doc') else ''), doc_eq(it, d, want, uri), ('C15',), info={'got': repr(d)[:200]})
        return 'ok'
    old = [(k, v) for k, v in D0.items] if extra == 'doc' else []
    new = [[k, v] for k, v in old]
    hit = [kv for kv in new if it.known_eq(kv[0], wk)]
    if hit: hit[0][1] = wv
    else: new.append([wk, wv])
    try: d = it.call(it.getattr(g, 'get_data'), [x], {})
    except Raised as e: st.oblige(f'{name}:data-reads-back-as-the-overlay', False, ('C15',), info={'exception': V.exc_name(e)}); return 'ok'
    st.oblige(f'{name}:data-reads-back-as-the-overlay', doc_eq(it, d, new, uri), ('C15',), info={'got': repr(d)[:200]})
    st.oblige(f'{name}:only-the-sidecar-of-this-entity-changes', all(it.py_eq(q, dp) is True or _is_tmp_of(it, q, dp) for q in ch), ('C15',), info={'changed': [repr(q)[:80] for q in ch]})
    # a second, fresh Getter instance reads the same (the file system is the only state)
    g2 = getter(it, c)
    d2 = it.call(it.getattr(g2, 'get_data'), [x], {})
    st.oblige(f'{name}:a-new-getter-instance-reads-the-same-data', doc_eq(it, d2, new, uri), ('C15',))
    return 'ok'

def run_lemma(it, st):
    """get_data_json_path(p1) == get_data_json_path(p2)  =>  same parent and same stem"""
    W.install_fs(it)
    gd = it.resolve(it.module('spil.conf').ns['get_data_json_path'])
    Path = it.getattr(it.module('pathlib'), 'Path')
    ps = []
    for tag in ('p', 'q'):
        par = st.fresh_str(f'{tag}par_', excl=set('/'), nonempty=True); stem = st.fresh_str(f'{tag}stem_', excl=set('/.'), nonempty=True); ext = st.fresh_str(f'{tag}ext_', excl=set('/.'), nonempty=True)
        hasext = st.pick(2, f'{tag}-has-ext') == 1
        name = it.concat([stem, '.', ext]) if hasext else stem
        ps.append((par, stem, W.PathModel(it.concat(['/root/', par, '/', name]))))
    st.inputs['p'] = ps[0][2].s; st.inputs['q'] = ps[1][2].s
    try: d1 = it.call(gd, [ps[0][2]], {}); d2 = it.call(gd, [ps[1][2]], {})
    except Raised as e:
        st.oblige('C15:get_data_json_path:raises-nothing', False, ('C15',), info={'exception': V.exc_name(e)}); return 'ok'
    same = it.py_eq(it.to_str(d1), it.to_str(d2))
    concl = it.conj([it.py_eq(ps[0][0], ps[1][0]), it.py_eq(ps[0][1], ps[1][1])])
    st.oblige('C15:get_data_json_path:same-sidecar-only-for-paths-differing-by-the-last-suffix', SBool(z3.Implies(zb(same), zb(concl))), ('C15',))
    st.observed = {}
    return 'ok'

def crosscheck(case, conc, exp): return {'status': 'agree', 'note': 'ghost file system: replayed natively only for refuted obligations'}

def replay(case, ob, inputs):
    import tempfile, pathlib, shutil, json
    if case[0] == 'sidecar-lemma':
        from spil.conf import get_data_json_path
        p, q = pathlib.Path(inputs['p']), pathlib.Path(inputs['q'])
        bad = get_data_json_path(p) == get_data_json_path(q) and (p.parent != q.parent or p.stem != q.stem)
        return {'confirmed': bad, 'call': f'get_data_json_path({str(p)!r}) vs ({str(q)!r})', 'observed': repr((str(get_data_json_path(p)), str(get_data_json_path(q)))), 'expected': 'different sidecars unless same parent and stem'}
    return {'confirmed': False, 'call': repr(case), 'observed': repr(ob.get('info')), 'expected': 'see the transition contract named by the obligation (ghost file system)'}
