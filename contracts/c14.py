"""
C14 -- Sids are immutable values: equal means same uri, and nothing can alter one.

Functions under contract (real source of spil/sid/sid.py, callees inlined):
  StringSid.__eq__, __hash__, __repr__, __lt__ (+ functools.total_ordering), __str__, string, uri, copy, is_search, __truediv__
  TypedSid.type, fields, uri, basetype, keytype, parent, __len__, get, get_as, get_with, is_leaf, as_query ; PathSid.path

requires  wf(x), wf(y): arbitrary well-formed typed Sids (all same-length template pairs, field values symbolic) or untyped Sids; s an arbitrary string
ensures   (x == y)  <=>  type(x) == type(y) and string(x) == string(y)        [i.e. uri(x) == uri(y)]
          x == y  =>  hash(x) == hash(y)          (hash(str) is a function: assumed)
          (x == s)  <=>  string(x) == s            for a plain string s
          (x < y)   <=>  string(x) < string(y) ;  <=, >, >= as derived by total_ordering      (string order abstracted to an arbitrary total order)
frame     for every public read-only operation op of the list above:  view(x) after op == view(x) before (same type, same string, the
          `_fields` dict is the same object with the same items), and no returned dict IS x._fields (`fields` returns a private copy);
          a returned Sid never has fewer/other items written into x's dict.  The "any sequence of operations" clause is the induction these
          frame conditions give.
"""
from __future__ import annotations
import z3
from pyvc.sstr import SStr, S, SBool, Var, simp, zb, OutsideSubset
from pyvc import interp as V
from pyvc.interp import PDict, PObj, Raised, Lazy, interleave
from . import common as C
from .c03 import obs_view, native_sid, nview

PROPERTY = 'C14'
FUNCTIONS = {'spil/sid/sid.py': ['StringSid.__eq__', 'StringSid.__hash__', 'StringSid.__repr__', 'StringSid.__lt__', 'StringSid.__str__', 'StringSid.string', 'StringSid.copy', 'StringSid.is_search', 'StringSid.__truediv__',
                                 'TypedSid.type', 'TypedSid.fields', 'TypedSid.uri', 'TypedSid.basetype', 'TypedSid.keytype', 'TypedSid.parent', 'TypedSid.__len__', 'TypedSid.get', 'TypedSid.get_as', 'TypedSid.get_with',
                                 'TypedSid.is_leaf', 'TypedSid.as_query', 'PathSid.path'],
             'spil/sid/core/query_helper.py': ['to_string', 'update'], 'spil/sid/pathops/fs_resolver.py': ['dict_to_path']}
TRUSTED = ['functools.total_ordering: <=, >, >= derived from __lt__ and __eq__ (modelled)', 'hash(str) is a function of the string (assumed)', 'resolva + re + urllib + pathlib models as in C01/C04/C05']
ASSUMPTIONS = ['string order is abstracted to an arbitrary strict total order (the comparison clauses are proved for every such order)',
               'DataSid methods (exists, children, siblings, get_last, get_next, get_new, get_attr) delegate to finders/getters and are outside this contract; their Sid arguments are only read through the methods proved here',
               'A-reserved: the operations that re-parse strings (copy, __truediv__, get_with(query=)) are exercised with field values free of "?" and ":"']
EXPLANATION = 'equality/hash/order on all same-length template pairs + untyped + plain strings; frame and no-alias obligations for every public read-only operation on an arbitrary well-formed Sid of every template'
BUDGET_S = {'quick': 900, 'thorough': 2400}

OPS = ['string', 'uri', 'type', 'fields', 'basetype', 'keytype', 'len', 'str', 'repr', 'hash', 'is_search', 'is_leaf', 'as_query', 'parent', 'copy', 'get', 'get_as', 'get_with_kw', 'get_with_none', 'truediv', 'eq_self', 'path']

def cases(tier):
    spec = C.spec_templates(); names = list(spec)
    cs = []
    for i, a in enumerate(names):
        for b in names[i:]:
            if len(spec[a]) == len(spec[b]): cs.append(('cmp', a, b))
    cs += [('cmp-untyped',), ('cmp-string', names[0]), ('cmp-string', 'asset__asset'), ('cmp-string', None)]
    for T in names:
        for op in OPS: cs.append(('frame', T, op))
    for op in OPS: cs.append(('frame', None, op))
    return cs

def mk_untyped(it, st, tag='u'):
    Sid = C.sid_class(it)
    x = PObj(Sid); s = SStr([st.fresh(tag)]); x.attrs.update({'_string': s, '_type': '', '_fields': PDict()})
    return x, s

def run(it, st, case):
    kind = case[0]
    it.abstract_str_order = True
    if kind == 'cmp': return run_cmp(it, st, *mk_pair(it, st, case[1], case[2]))
    if kind == 'cmp-untyped':
        x, sx = mk_untyped(it, st, 'ux'); y, sy = mk_untyped(it, st, 'uy')
        st.inputs.update({'x': ['', sx], 'y': ['', sy]})
        return run_cmp(it, st, x, y, '', '', sx, sy)
    if kind == 'cmp-string': return run_cmp_string(it, st, case[1])
    if kind == 'frame': return run_frame(it, st, case[1], case[2])

def mk_pair(it, st, T1, T2):
    x, vx = C.mk_typed(it, st, T1, tag='x'); y, vy = C.mk_typed(it, st, T2, tag='y')
    st.inputs.update({'x': [T1, [v for _, v in vx]], 'y': [T2, [v for _, v in vy]]})
    return x, y, T1, T2, x.attrs['_string'], y.attrs['_string']

def run_cmp(it, st, x, y, T1, T2, sx, sy):
    name = 'C14:StringSid'
    try:
        e = it.py_eq(x, y); e2 = it.py_eq(y, x)
        ne = it.compare(V.ast.NotEq(), x, y)
        hx = it.call(V.BUILTINS['hash'], [x], {}); hy = it.call(V.BUILTINS['hash'], [y], {})
    except Raised as ex:
        st.oblige(f'{name}.__eq__/__hash__:raises-nothing', False, ('C14',), info={'exception': V.exc_name(ex)}); return 'ok'
    spec_eq = it.conj([T1 == T2, it.py_eq(sx, sy)])
    st.oblige(f'{name}.__eq__:equal-exactly-when-type-and-string-are-equal', iff(it, e, spec_eq), ('C14',))
    st.oblige(f'{name}.__eq__:symmetric-and-ne-is-its-negation', it.conj([iff(it, e, e2), iff(it, ne, it.neg(spec_eq))]), ('C14',))
    he = it.py_eq(hx, hy)
    st.oblige(f'{name}.__hash__:equal-sids-hash-equally', implies(it, spec_eq, he), ('C14',))
    st.observed = {'eq': e if isinstance(e, bool) else SBool(e.z)}
    # ordering
    try:
        lt = it.compare(V.ast.Lt(), x, y); le = it.compare(V.ast.LtE(), x, y); gt = it.compare(V.ast.Gt(), x, y); ge = it.compare(V.ast.GtE(), x, y)
    except Raised as ex:
        st.oblige(f'{name}.__lt__:raises-nothing', False, ('C14',), info={'exception': V.exc_name(ex)}); return 'ok'
    slt = it.compare(V.ast.Lt(), sx, sy)
    st.oblige(f'{name}.__lt__:orders-by-string', iff(it, lt, slt), ('C14',))
    st.oblige(f'{name}.total_ordering:le-gt-ge-consistent-with-lt-and-eq', it.conj([iff(it, le, it.disj([lt, e])), iff(it, gt, it.conj([it.neg(lt), it.neg(e)])), iff(it, ge, it.neg(lt))]), ('C14',))
    return 'ok'

def iff(it, a, b):
    if isinstance(a, bool) and isinstance(b, bool): return a == b
    return SBool(zb(a) == zb(b))
def implies(it, a, b):
    if a is False or b is True: return True
    return SBool(z3.Implies(zb(a), zb(b)))

def run_cmp_string(it, st, T):
    name = 'C14:StringSid.__eq__'
    if T is None: x, sx = mk_untyped(it, st, 'ux'); st.inputs['x'] = ['', sx]
    else:
        x, vx = C.mk_typed(it, st, T, tag='x'); sx = x.attrs['_string']; st.inputs['x'] = [T, [v for _, v in vx]]
    s = SStr([st.fresh('other')]); st.inputs['other'] = s
    try: e = it.py_eq(x, s)
    except Raised as ex:
        st.oblige(f'{name}:raises-nothing', False, ('C14',), info={'exception': V.exc_name(ex)}); return 'ok'
    st.oblige(f'{name}:equals-a-plain-string-exactly-when-its-string-does', iff(it, e, it.py_eq(sx, s)), ('C14',))
    st.observed = {'eq': e if isinstance(e, bool) else SBool(e.z)}
    return 'ok'

def run_frame(it, st, T, op):
    name = f'C14:frame:{op}'
    if T is None:
        x, sx = mk_untyped(it, st, 'ux'); vals = []; st.inputs['x'] = ['', sx]
        st.excl[sx.atoms[0].name] |= set('? ')       # strings with a query part are C04's domain (structured queries)
        # an untyped Sid's string is arbitrary; operations that re-parse it are covered by C01 -- here: frame only
    else:
        x, vals = C.mk_typed(it, st, T, tag='x'); st.inputs['x'] = [T, [v for _, v in vals]]
        from .c04 import restrict_reserved
        restrict_reserved(st, vals)
        for _, v in vals:
            for a in st.norm(v).atoms:
                if isinstance(a, Var) and ' ' not in st.excl.get(a.name, ()): st.excl[a.name].add(' ')     # as_query's encoder strips blanks: covered by C02's domain
    if op == 'path' and T is not None:
        from .c05 import assume_concrete
        assume_concrete(it, st, vals)          # C05's domain (concrete Sid, A-path-norm); search Sids have no single path
        if not st.feasible(): return 'ok'
    before = (x.attrs['_type'], x.attrs['_string'], x.attrs['_fields'], [(k, v) for k, v in x.attrs['_fields'].items])
    keys = [k for k, _ in vals]
    it.urlsafe_vars = {a.name for _, v in vals for a in st.norm(v).atoms if isinstance(a, Var)}
    try:
        if op in ('string', 'uri', 'type', 'fields', 'basetype', 'keytype', 'parent'): r = it.getattr(x, op)
        elif op == 'len': r = it.call(V.BUILTINS['len'], [x], {})
        elif op == 'str': r = it.to_str(x)
        elif op == 'repr': r = it.call(V.BUILTINS['repr'], [x], {})
        elif op == 'hash': r = it.call(V.BUILTINS['hash'], [x], {})
        elif op in ('is_search', 'is_leaf', 'as_query', 'copy'): r = it.call(it.getattr(x, op), [], {})
        elif op == 'get': r = it.call(it.getattr(x, 'get'), [keys[-1] if keys else 'project'], {})
        elif op == 'get_as': r = it.call(it.getattr(x, 'get_as'), [keys[0] if keys else 'project'], {})
        elif op == 'get_with_kw': r = it.call(it.getattr(x, 'get_with'), [], {(keys[-1] if keys else 'project'): '*'})
        elif op == 'get_with_none': r = it.call(it.getattr(x, 'get_with'), [], {(keys[-1] if keys else 'project'): None})
        elif op == 'truediv': r = it.binop(V.ast.Div(), x, 'child')
        elif op == 'eq_self': r = it.py_eq(x, x)
        elif op == 'path': r = it.call(it.getattr(x, 'path'), [], {})
        else: raise OutsideSubset(op)
    except Raised as ex:
        if op == 'as_query' and False: pass
        st.oblige(f'{name}:raises-nothing', False, ('C14',), info={'exception': V.exc_name(ex), 'args': repr(ex.exc.attrs.get('args'))[:150]})
        r = None
    f = x.attrs.get('_fields')
    same = x.attrs.get('_type') is before[0] or x.attrs.get('_type') == before[0]
    same = same and x.attrs.get('_string') is before[1] and f is before[2] and isinstance(f, PDict) and len(f.items) == len(before[3]) and all(a[0] is b[0] and a[1] is b[1] for a, b in zip(f.items, before[3]))
    st.oblige(f'{name}:view-of-self-unchanged', same, ('C14',))
    alias = (r is before[2]) or (isinstance(r, (list, tuple)) and any(e is before[2] for e in r))
    st.oblige(f'{name}:result-does-not-expose-the-private-fields-dict', not alias, ('C14',))
    if op == 'fields':
        st.oblige(f'{name}:returns-an-equal-private-copy', isinstance(r, PDict) and r is not before[2] and len(r.items) == len(before[3]) and all(a[0] is b[0] and a[1] is b[1] for a, b in zip(r.items, before[3])), ('C14',))
        if isinstance(r, PDict) and r is not before[2]:
            # the caller edits the dictionary it got; a second read must be a fresh, unedited copy (a memoised copy would be shared)
            r.items.append(('__probe__', 'edited'))
            try: r2 = it.getattr(x, 'fields')
            except Raised: r2 = None
            st.oblige(f'{name}:a-second-read-is-a-fresh-copy-unaffected-by-edits-of-the-first', isinstance(r2, PDict) and r2 is not r and r2 is not before[2] and len(r2.items) == len(before[3]) and all(a[0] is b[0] and a[1] is b[1] for a, b in zip(r2.items, before[3])), ('C14',))
    st.observed = {'op': op}
    return 'ok'

# ------------------------------------------------------------------ native side
def _nat(spec):
    T, v = spec
    return native_sid(T, v) if T else native_sid('', [], v)
def crosscheck(case, conc, exp):
    kind = case[0]
    if kind in ('cmp', 'cmp-untyped'):
        x, y = _nat(conc['x']), _nat(conc['y'])
        got = {'eq': x == y}
    elif kind == 'cmp-string':
        got = {'eq': _nat(conc['x']) == conc['other']}
    else: return {'status': 'agree', 'note': 'frame case: no value-level outcome'}
    if got != exp: return {'status': 'diverged', 'input': conc, 'cpython': got, 'engine': exp}
    return {'status': 'agree'}

def replay(case, ob, inputs):
    kind = case[0]
    if kind in ('cmp', 'cmp-untyped'):
        x, y = _nat(inputs['x']), _nat(inputs['y'])
        want = x.uri == y.uri
        facts = {'eq': (x == y) == want, 'sym': (y == x) == want, 'ne': (x != y) == (not want), 'hash': (not want) or hash(x) == hash(y),
                 'lt': (x < y) == (x.string < y.string), 'le': (x <= y) == (x.string < y.string or want), 'gt': (x > y) == (not (x.string < y.string) and not want), 'ge': (x >= y) == (not (x.string < y.string))}
        return {'confirmed': not all(facts.values()), 'call': f'x={inputs["x"]!r}; y={inputs["y"]!r}: ==, !=, hash, <, <=, >, >=', 'observed': repr(facts), 'expected': 'all clauses true'}
    if kind == 'cmp-string':
        x = _nat(inputs['x']); s = inputs['other']
        ok = (x == s) == (x.string == s)
        return {'confirmed': not ok, 'call': f'x={inputs["x"]!r} == {s!r}', 'observed': repr(x == s), 'expected': repr(x.string == s)}
    T, op = case[1], case[2]
    x = _nat(inputs['x']); import copy
    before = (x.type, x.string, dict(x._fields), id(x._fields)); keys = list(x._fields)
    k = keys[-1] if keys else 'project'
    def do():
        if op in ('string', 'uri', 'type', 'fields', 'basetype', 'keytype', 'parent'): return getattr(x, op)
        return {'len': lambda: len(x), 'str': lambda: str(x), 'repr': lambda: repr(x), 'hash': lambda: hash(x), 'is_search': x.is_search, 'is_leaf': x.is_leaf, 'as_query': x.as_query,
                'copy': x.copy, 'get': lambda: x.get(k), 'get_as': lambda: x.get_as(keys[0] if keys else 'project'), 'get_with_kw': lambda: x.get_with(**{k: '*'}),
                'get_with_none': lambda: x.get_with(**{k: None}), 'truediv': lambda: x / 'child', 'eq_self': lambda: x == x, 'path': x.path}[op]()
    r = C.call_native(do)
    if r[0] == 'ret' and isinstance(r[1], dict): r[1]['__probe__'] = 1      # mutation attempt on a returned container
    after = (x.type, x.string, dict(x._fields), id(x._fields))
    ok = r[0] == 'ret' and after == before and not (r[0] == 'ret' and r[1] is x._fields)
    if ok and op == 'fields':        # second read after the caller edited the first answer
        r2 = C.call_native(do)
        ok = r2[0] == 'ret' and r2[1] == before[2] and r2[1] is not r[1]
        after = after + (r2,)
    return {'confirmed': not ok, 'call': f'x={inputs["x"]!r}; {op}', 'observed': repr((r[0], after))[:300], 'expected': repr(before)[:300]}
