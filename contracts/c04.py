"""
C04 -- updating a Sid by query or get_with is all-or-nothing and never guesses.

Functions under contract (real source, inlined down to resolva / re / urllib models):
  spil.sid.core.query_helper: update, apply_query, to_dict ; spil.sid.sid: TypedSid.get_with ;
  spil.sid.core.sid_factory: sid_to_sid (query branch), dict_to_sid ; sid_resolver: dict_to_type, dict_to_sid, sid_to_dict

requires  wf(x) typed of template T (field values symbolic under their patterns, free of the reserved '?' ':' so that x.uri parses back);
          query = k1=v1[&k2=v2[&k3=v3]]: 1..3 pairs (the property's own bound), keys and values SYMBOLIC strings (non-empty, free of
          URL metacharacters and of the separators / ? & = : ~ inside), each value optionally '~'-prefixed.
oracle    overlay(fields, pairs): for (k, v) in order: a '~'-prefixed v replaces k only if k is present, with v minus its prefix; else fields[k] = v.
          types_of(d): templates, in configuration order, whose key set equals d's key set and whose patterns accept every value.
          decision table: exactly one type -> it ; none -> refused ; several: old type among them -> old type, else if the expression is a
          search (a search symbol occurs in 'string?query') -> the first, else refused.
ensures   Sid(x.uri + '?' + query):  applied  -> typed, fields == overlay in TEMPLATE order, string canonical and '?'-free, type per the table
                                     refused  -> view == (old type, old fields, old string + '?' + query)           [raises nothing]
          get_with(**kw) / get_with(key=, value=): result is typed with exactly the overlaid fields (None removes the key, also when it is
          absent), in template order, or it is untyped; never a typed Sid with other fields.                          [raises nothing]
          update(data, query) == overlay, returns a fresh dict and leaves `data` unchanged.
"""
from __future__ import annotations
import itertools, z3
from pyvc.sstr import SStr, S, SBool, Var, simp, zb, OutsideSubset, pattern_re
from pyvc import interp as V
from pyvc.interp import PDict, PObj, Raised, Lazy, interleave
from . import common as C
from .c03 import obs_view, native_sid, nview

PROPERTY = 'C04'
FUNCTIONS = {'spil/sid/core/query_helper.py': ['update', 'apply_query', 'to_dict'], 'spil/sid/sid.py': ['TypedSid.get_with', 'TypedSid.uri', 'StringSid.is_search', 'BaseSid.__new__'],
             'spil/sid/core/sid_factory.py': ['sid_factory', 'sid_to_sid', 'dict_to_sid'], 'spil/sid/core/sid_resolver.py': ['dict_to_type', 'dict_to_sid', 'sid_to_dict']}
TRUSTED = ['resolva Resolver methods + match_to_dict: interpreted from the installed source', 're search/groupdict: modelled',
           'urllib.parse.urlsplit / parse_qsl: modelled on the stated domain (no % + # ; in keys and values; blank values dropped)']
ASSUMPTIONS = ['A-urllib: keys and values of the query are free of % + # ; (no percent/plus decoding, no fragment)',
               "A-reserved: field values of x and query keys/values are free of '?' ':' '&' '=' (the query syntax's own separators)",
               'bound (the property\'s own): 1 to 3 query pairs; 3 pairs only for a subset of templates in the quick tier']
EXPLANATION = 'every template x symbolic query keys and values (existing / deeper / foreign keys arise as forks of the symbolic key), 1-2 pairs for all templates, 3 pairs for a subset; get_with over every key name and None'
BOUNDED = []
BUDGET_S = {'quick': 1500, 'thorough': 3000}
SAFE_EXCL = set('/?&=:#%+;~ \t\n\r\x0b\x0c*,<>')     # value/key alphabet for symbolic query parts (search symbols are added by dedicated cases)

def all_keys():
    out = []
    for ks in C.conf('key_types').values():
        for k in ks:
            if k not in out: out.append(k)
    return out

def cases(tier):
    spec = C.spec_templates(); names = list(spec)
    thorough = tier == 'thorough'
    cs = []
    sub = [T for T in ('project', 'shot', 'asset') if T in spec]
    sub2 = sub + [T for T in ('asset__asset', 'shot__task', 'shot__state') if T in spec]
    for T in names:
        cs.append(('query', T, 1, 'plain')); cs.append(('query', T, 1, 'search'))
        if thorough or T in sub2: cs.append(('query', T, 1, 'opt'))
    for T in (names if thorough else sub): cs.append(('query', T, 2, 'plain'))
    for T in (names if thorough else []): cs.append(('query', T, 2, 'opt'))
    for T in (sub if thorough else []): cs.append(('query', T, 3, 'plain'))
    allk = all_keys() + ['foo']
    for T in names:
        keys = C.keys_of(T)
        for k in allk:
            cs.append(('get_with', T, k, 'none'))
            # value overlays: every key in the thorough tier; in the quick tier the last two keys of T, the next deeper key of its basetype, and a foreign key
            base = T.split(C.conf('sidtype_keytype_sep'))[0]; kt = C.conf('key_types').get(base, [])
            deeper = [x for x in kt if x not in keys][:1]
            if thorough or k in keys[-1:] or k in deeper or k == 'foo':
                cs.append(('get_with', T, k, 'value'))
                if thorough or (k in keys[-1:] and T in sub2): cs.append(('get_with', T, k, 'keyvalue'))
    for T in names: cs.append(('update', T))
    return cs

def restrict_reserved(st, vals):
    for _, v in vals:
        for a in st.norm(v).atoms:
            if isinstance(a, Var):
                for c in '?:':
                    if c not in st.excl.get(a.name, ()): st.assume(z3.Not(z3.Contains(a.z, z3.StringVal(c)))); st.excl[a.name].add(c)

def overlay(it, fields, pairs):
    """spec: list of (key, value) after overlaying pairs [(k, v, optional)] in order"""
    out = [[k, v] for k, v in fields]
    uniq = []
    for k, v, opt in pairs:       # a repeated key: the query is a mapping, the last value wins (position of the first occurrence)
        hit = [p for p in uniq if it.known_eq(p[0], k)]
        if hit: hit[0][1] = v; hit[0][2] = opt
        else: uniq.append([k, v, opt])
    for k, v, opt in uniq:
        hit = None
        for kv in out:
            if it.known_eq(kv[0], k): hit = kv; break
        if hit is not None: hit[1] = v
        elif not opt: out.append([k, v])
    return out

def types_of(it, st, d):
    """templates whose key set equals the keys of d and whose patterns accept every value; returns [(T, ordered_items, cond)] with cond bool|SBool"""
    spec = C.spec_templates(); out = []
    for T, sp in spec.items():
        if len(sp) != len(d): continue
        items = []
        for key, pat in sp:
            hit = [kv for kv in d if it.known_eq(kv[0], key)]
            if not hit: items = None; break
            items.append((key, hit[0][1]))
        if items is None: continue
        conds = [st.in_re(v, pattern_re(pat)[0]) for (key, pat), (_, v) in zip(sp, items)]
        if any(c is False for c in conds): continue
        out.append((T, items, it.conj(conds)))
    return out

def nk(st, k): return simp(st.norm(k)) if isinstance(k, SStr) else k
def same_view(it, y, T, items, string=None):
    if not isinstance(y, PObj): return False
    t, f, s = C.view(y)
    if not isinstance(f, list) or [nk(it.st, k) for k, _ in f] != [nk(it.st, k) for k, _ in items]: return False
    want_s = it.concat(interleave('/', [v for _, v in items])) if string is None else string
    return it.conj([it.py_eq(t, T)] + [it.py_eq(a, b) for (_, a), (_, b) in zip(f, items)] + [it.py_eq(s, want_s)])

def decide(it, st, name, y, T, vals, d, refused_string, is_search, props=('C04',)):
    """obligations for the decision table; y = result Sid, d = overlay (list of [k, v])"""
    cands = types_of(it, st, d)
    # fork on which candidates accept (exhaustive: each cond true/false)
    acc = []
    for T2, items, cond in cands:
        if st.branch(cond, f'spec:accepts {T2}'): acc.append((T2, items))
    refused = same_view(it, y, T, vals, refused_string)
    if not acc:
        st.oblige(f'{name}:no-type-fits-then-type-fields-untouched-and-query-kept', refused, props); return
    if len(acc) == 1: pick = acc[0]
    elif any(t == T for t, _ in acc): pick = [a for a in acc if a[0] == T][0]
    elif is_search: pick = acc[0]
    else:
        st.oblige(f'{name}:several-types-non-search-then-refused', refused, props, info={'types': [t for t, _ in acc]}); return
    st.oblige(f'{name}:applied-fields-are-the-overlay-in-template-order-type-per-table', same_view(it, y, pick[0], pick[1]), props,
              info={'want_type': pick[0], 'got': repr(C.view(y))[:300] if isinstance(y, PObj) else repr(y)})

def sym_part(st, hint, extra_ok=''):
    return st.fresh_str(hint, pattern='[A-Za-z0-9_.\\-' + extra_ok + ']+', nonempty=True)

def run(it, st, case):
    kind, T = case[0], case[1]
    x, vals = C.mk_typed(it, st, T)
    restrict_reserved(st, vals)
    st.inputs['type'] = T; st.inputs['values'] = [v for _, v in vals]
    it.urlsafe_vars = set()
    if kind == 'query': return run_query(it, st, x, T, vals, case[2], case[3])
    if kind == 'get_with': return run_get_with(it, st, x, T, vals, case[2], case[3])
    if kind == 'update': return run_update(it, st, x, T, vals)

def run_query(it, st, x, T, vals, npairs, mode):
    name = 'C04:Sid(uri?query)'
    pairs = []; parts = []
    for i in range(npairs):
        k = sym_part(st, f'qk{i}_')
        if mode == 'search' and i == 0:
            w = ['*', '>', 'a,b'][st.pick(3, 'search-value')]
        else: w = sym_part(st, f'qv{i}_')
        opt = mode == 'opt' and st.pick(2, f'opt{i}') == 1
        v = it.concat(['~', w]) if opt else w
        pairs.append((k, w, opt)); parts.append(it.concat([k, '=', v]))
    query = it.concat(interleave('&', parts))
    st.inputs['query'] = query
    Sid = C.sid_class(it)
    uri = it.getattr(x, 'uri')
    s = it.concat([uri, '?', query])
    try: y = it.call(Sid, [s], {})
    except Raised as e:
        st.oblige(f'{name}:raises-nothing', False, ('C04', 'C01'), info={'exception': V.exc_name(e), 'args': repr(e.exc.attrs.get('args'))[:150]})
        st.observed = {'raises': V.exc_name(e)}; return 'ok'
    st.oblige(f'{name}:raises-nothing', True, ('C04', 'C01'))
    st.observed = obs_view(y)
    d = overlay(it, vals, pairs)
    old_string = it.concat(interleave('/', [v for _, v in vals]))
    refused_string = it.concat([old_string, '?', query])
    # is the whole expression a search?  (a search symbol in 'string?query')
    whole = it.concat([old_string, '?', query])
    is_search = any(it.is_true(it.contains(whole, sym), 'spec:is-search') for sym in C.conf('search_symbols'))
    decide(it, st, name, y, T, vals, d, refused_string, is_search)
    t, f, s_ = C.view(y)
    st.oblige(f'{name}:frame-self-unchanged', C.view(x)[0] == T and all(a is b for (_, a), (_, b) in zip(C.view(x)[1], vals)), ('C04', 'C14'))
    return 'ok'

def run_get_with(it, st, x, T, vals, key, mode):
    name = 'C04:TypedSid.get_with'
    keys = [k for k, _ in vals]
    if mode == 'none': kw = {key: None}; pairs = None
    else:
        pat = None
        w = st.fresh_str(f'gv_', excl=set('/'))     # any '/'-free value (valid, invalid, search symbols, empty)
        kw = {key: w}
    st.inputs['key'] = key; st.inputs['mode'] = mode; st.inputs['value'] = None if mode == 'none' else w
    try:
        if mode == 'keyvalue': y = it.call(it.getattr(x, 'get_with'), [], {'key': key, 'value': w})
        else: y = it.call(it.getattr(x, 'get_with'), [], dict(kw))
    except Raised as e:
        st.oblige(f'{name}:raises-nothing', False, ('C04',), info={'exception': V.exc_name(e), 'args': repr(e.exc.attrs.get('args'))[:150], 'kw': repr(kw)[:100]})
        st.observed = {'raises': V.exc_name(e)}; return 'ok'
    st.oblige(f'{name}:raises-nothing', True, ('C04',))
    st.observed = obs_view(y)
    if mode == 'none': d = [[k, v] for k, v in vals if k != key]
    else: d = overlay(it, vals, [(key, w, False)])
    if not isinstance(y, PObj): st.oblige(f'{name}:returns-a-Sid', False, ('C04',)); return 'ok'
    t, f, s = C.view(y)
    if not f:
        st.oblige(f'{name}:untyped-result-has-no-type', t == '', ('C04',))
    else:
        # typed: fields must be exactly the requested overlay, in template order of the result type
        tn = simp(st.norm(t)) if isinstance(t, SStr) else t
        ok = isinstance(tn, str) and tn in C.spec_templates()
        if ok:
            order = C.keys_of(tn)
            items = []
            for k in order:
                hit = [kv for kv in d if kv[0] == k]
                if not hit: ok = False; break
                items.append((k, hit[0][1]))
            ok = ok and len(order) == len(d)
        st.oblige(f'{name}:typed-result-has-exactly-the-overlaid-fields', same_view(it, y, tn, items) if ok else False, ('C04',),
                  info={'got': repr((t, [k for k, _ in f]))[:200], 'want_keys': [k for k, _ in d]})
    st.oblige(f'{name}:frame-self-unchanged', C.view(x)[0] == T and [k for k, _ in C.view(x)[1]] == keys and all(a is b for (_, a), (_, b) in zip(C.view(x)[1], vals)), ('C04', 'C14'))
    return 'ok'

def run_update(it, st, x, T, vals):
    name = 'C04:query_helper.update'
    qh = it.module('spil.sid.core.query_helper')
    k = sym_part(st, 'uk_'); w = sym_part(st, 'uv_', extra_ok='~')      # the value may contain '~' anywhere
    opt = st.pick(2, 'opt') == 1
    v = it.concat(['~', w]) if opt else w
    query = it.concat([k, '=', v]); st.inputs['query'] = query
    data = x.attrs['_fields']
    before = [(a, b) for a, b in data.items]
    try: r = it.call(qh.ns['update'], [data, query], {})
    except Raised as e:
        st.oblige(f'{name}:raises-nothing', False, ('C04',), info={'exception': V.exc_name(e)}); st.observed = {'raises': V.exc_name(e)}; return 'ok'
    st.observed = {'result': [[a, b] for a, b in r.items] if isinstance(r, PDict) else None}
    if not opt and st.str_free_of(w, '~') is False:
        pass
    # a plain value that itself starts with '~' is an optional value by the statement
    starts = V._s_startswith(it, w, '~')
    if not opt and it.st.branch(starts if isinstance(starts, (bool, SBool)) else it.truthy(starts), 'spec:value-starts-with-prefix'):
        rest = it.str_slice(w, 1, None) if isinstance(w, SStr) else w[1:]
        d = overlay(it, vals, [(k, rest, True)])
    else:
        d = overlay(it, vals, [(k, w, opt)])
    ok = isinstance(r, PDict) and len(r.items) == len(d) and all(it.py_eq(a, c) is True for (a, _), (c, _) in zip(r.items, d))
    st.oblige(f'{name}:result-is-the-overlay', it.conj([it.py_eq(b, dv) for (_, b), (_, dv) in zip(r.items, d)]) if ok else False, ('C04',),
              info={'got_keys': repr([a for a, _ in r.items])[:200] if isinstance(r, PDict) else None})
    st.oblige(f'{name}:fresh-result-and-argument-unchanged', r is not data and len(data.items) == len(before) and all(a is c and b is d_ for (a, b), (c, d_) in zip(data.items, before)), ('C04', 'C14'))
    return 'ok'

# ------------------------------------------------------------------ native side
def crosscheck(case, conc, exp):
    kind = case[0]
    try:
        x = native_sid(conc['type'], conc['values'])
        if kind == 'query':
            Sid = C.native()['Sid']; got = nview(Sid(x.uri + '?' + conc['query']))
        elif kind == 'get_with':
            if conc['mode'] == 'none': got = nview(x.get_with(**{conc['key']: None}))
            elif conc['mode'] == 'keyvalue': got = nview(x.get_with(key=conc['key'], value=conc['value']))
            else: got = nview(x.get_with(**{conc['key']: conc['value']}))
        else:
            from spil.sid.core import query_helper
            got = {'result': [[a, b] for a, b in query_helper.update(dict(x.fields), conc['query']).items()]}
    except BaseException as e:
        got = {'raises': type(e).__name__}
    if got != exp: return {'status': 'diverged', 'input': conc, 'cpython': got, 'engine': exp}
    return {'status': 'agree'}

def py_overlay(fields, pairs):
    d = dict(fields)
    for k, v in dict(pairs).items():
        if v.startswith('~'):
            if k in d: d[k] = v[1:]
        else: d[k] = v
    return d
def py_types_of(d):
    import re
    out = []
    for T, sp in C.spec_templates().items():
        if set(k for k, _ in sp) == set(d) and len(sp) == len(d) and all(re.fullmatch(p, d[k]) for k, p in sp): out.append(T)
    return out
def py_expected_query(T, values, query):
    keys = C.keys_of(T); fields = dict(zip(keys, values)); string = '/'.join(values)
    pairs = [tuple(p.split('=', 1)) for p in query.split('&')]
    d = py_overlay(fields, pairs); ts = py_types_of(d)
    refused = (T, list(fields.items()), string + '?' + query)
    if not ts: return refused
    if len(ts) == 1: t = ts[0]
    elif T in ts: t = T
    elif any(s in string + '?' + query for s in C.conf('search_symbols')): t = ts[0]
    else: return refused
    items = [(k, d[k]) for k in C.keys_of(t)]
    return (t, items, '/'.join(v for _, v in items))

def replay(case, ob, inputs):
    kind = case[0]
    T, values = inputs['type'], inputs['values']; keys = C.keys_of(T)
    x = native_sid(T, values)
    mk = f"x=Sid(from_factory=True); x._init(string={'/'.join(values)!r}, type={T!r}, fields={dict(zip(keys, values))!r})"
    if kind == 'query':
        Sid = C.native()['Sid']; q = inputs['query']
        r = C.call_native(Sid, x.uri + '?' + q)
        want = py_expected_query(T, values, q)
        ok = r[0] == 'ret' and C.native_view(r[1]) == want
        return {'confirmed': not ok, 'call': f'Sid({x.uri + "?" + q!r})', 'observed': repr(C.native_view(r[1]) if r[0] == 'ret' else r)[:400], 'expected': repr(want)[:400],
                'reproducer': f'from spil import Sid; y = Sid({x.uri + "?" + q!r}); print(y.type, y.fields, y.string)'}
    if kind == 'get_with':
        key, mode, value = inputs['key'], inputs['mode'], inputs.get('value')
        if mode == 'none': r = C.call_native(lambda: x.get_with(**{key: None})); d = {k: v for k, v in zip(keys, values) if k != key}
        elif mode == 'keyvalue': r = C.call_native(lambda: x.get_with(key=key, value=value)); d = {**dict(zip(keys, values)), key: value}
        else: r = C.call_native(lambda: x.get_with(**{key: value})); d = {**dict(zip(keys, values)), key: value}
        ok = r[0] == 'ret' and (not r[1].type and not r[1].fields or (r[1].fields == d and list(r[1].fields) == C.keys_of(r[1].type)))
        return {'confirmed': not ok, 'call': f'{mk}; x.get_with({key}={value!r}) [{mode}]', 'observed': repr(C.native_view(r[1]) if r[0] == 'ret' else r)[:400], 'expected': f'typed with fields {d!r} in template order, or untyped'}
    from spil.sid.core import query_helper
    q = inputs['query']; fields = dict(zip(keys, values)); arg = dict(fields)
    r = C.call_native(query_helper.update, arg, q)
    want = py_overlay(fields, [tuple(q.split('=', 1))])
    ok = r[0] == 'ret' and r[1] == want and list(r[1]) == list(want) and arg == fields
    return {'confirmed': not ok, 'call': f'query_helper.update({fields!r}, {q!r})', 'observed': repr(r)[:300], 'expected': repr(want)[:300]}
