"""
C16 -- a Getter returns one record per Sid its Finder finds, in the same order.

Functions under contract (real source): getter_finder.GetByFinder.get / do_get, getter_paths.GetFromPaths.get_data, getter_all.GetFromAll.get /
  get_data / get_attr, getter_all.get_getter, getter.Getter.get_one / get_data / get_attr, spil_data_conf.get_getter_for (configuration, interpreted).
Modular: the Finder is abstract (a stub whose find / do_find yield an arbitrary list of 0..3 example Sids); unfold_search is replaced by an
arbitrary list of typed Sids in the GetFromAll.get harness (its own contract is C07); the file system is the ghost fs of C15/C17.

ensures   list(GetByFinder.get(s, attributes, enc)) == [get_data(x, attributes, enc) or {} for x in finder.find(s)]   (length, order)   -- same for do_get
          GetFromPaths.get_data(x, attributes, enc): the stored document of x plus 'sid': enc(x), omitted when enc(x) is None;
              with an attributes list exactly those keys (missing ones None); a Sid without path gives {}
          GetFromAll.get_data / get_attr: delegate to the configured Getter of the Sid's type; a type configured with None gives {} / None, nothing raises
          GetFromAll.get: the records of every typed search that has a configured Getter, nothing for the others
          Getter.get_one == first record or {} ; get_data == get_one ; get_attr == that record's value for the attribute
"""
from __future__ import annotations
import z3
from pyvc.sstr import SStr, S, SBool, Var, simp, zb, OutsideSubset
from pyvc import interp as V
from pyvc.interp import PDict, PObj, PClass, Raised, Lazy, interleave, PBuiltin, GenList
from pyvc import world as W, fsmodel as FS
from . import common as C
from .c05 import path_types, configs
from .c17 import doc_eq, _is_ancestor

PROPERTY = 'C16'
FUNCTIONS = {'spil/sid/read/getters/getter_finder.py': ['GetByFinder.get', 'GetByFinder.do_get'], 'spil/sid/pathops/getter_paths.py': ['GetFromPaths.get_data'],
             'spil/sid/read/getters/getter_all.py': ['get_getter', 'GetFromAll.get', 'GetFromAll.get_data', 'GetFromAll.get_attr'], 'spil/sid/read/getter.py': ['Getter.get_one', 'Getter.get_data', 'Getter.get_attr'],
             'spil_hamlet_conf/spil_data_conf.py': ['get_getter_for', 'get_data_json_path']}
TRUSTED = ['ghost file system primitives (pyvc.fsmodel); json.load returns the stored document']
ASSUMPTIONS = ['the Finder is abstract (stub); unfold_search is abstract in the GetFromAll.get harness (C07); example Sids are concrete, documents and encoders symbolic',
               'sid_encode is an arbitrary function: modelled by three representatives (str, a function returning an arbitrary string, a function returning None)']
BOUNDED = ['the finder yields at most 3 Sids per call in the harness (the loop body is the same for every element)']
EXPLANATION = 'map-schema obligations on the getter loops against an abstract finder; get_data against the ghost file system; routing through the real configuration function'
BUDGET_S = {'quick': 600, 'thorough': 1800}

def cases(tier):
    cs = []
    c = configs()[0]; pts = path_types(c)
    some = [T for T in ('asset__file', 'asset__asset', 'shot__cache_node_file') if T in pts]
    for n in (0, 1, 2, 3): cs.append(('map', n, 'get')); cs.append(('map', n, 'do_get'))
    import itertools as _it
    for n in (1, 2, 3):
        for recs in _it.product(('data', 'empty', 'none'), repeat=n):
            cs.append(('map-abs', recs, 'get')); cs.append(('map-abs', recs, 'do_get'))
    for T in C.spec_templates():
        for enc in ('str', 'sym', 'none'):
            cs.append(('get_data', T, c, enc, False))
        cs.append(('get_data', T, c, 'str', True))
        cs.append(('get_data-twice', T, c))
        cs.append(('all', T, c))
    for n in (0, 1, 2): cs.append(('one', n))
    cs.append(('all-get',))
    import itertools as _it2
    for assign in _it2.product(('G1', 'G2', None), repeat=3): cs.append(('all-get-abs', assign))
    return cs

def fs_setup(it, st, xs, c, with_doc=True):
    fs = W.install_fs(it)
    fp = PClass('FindInPaths', [V.OBJECT]); fp.ns['__init__'] = PBuiltin(lambda it_, self_, *a, **k: None, '__init__')
    it.module('spil').ns['FindInPaths'] = fp
    gd = it.resolve(it.module('spil.conf').ns['get_data_json_path'])
    docs = {}
    ents = []
    for i, x in enumerate(xs):
        p = it.call(it.getattr(x, 'path'), [c], {})
        if p is None: ents.append((x, None, None, None)); continue
        ps = it.to_str(p); dp = it.to_str(it.call(gd, [p], {}))
        k0, v0 = st.fresh_str(f'd{i}k_', nonempty=True), st.fresh_str(f'd{i}v_'); st.assume(st.norm(k0).z() != z3.StringVal('next.version'))     # 'next.version' is routed to the NextGetter plugin (C18)
        ents.append((x, ps, dp, PDict([(k0, v0)])))
    def initial(path):
        for x, ps, dp, D in ents:
            if ps is None: continue
            if it.known_eq(path, ps): return ('dir', None)
            if it.known_eq(path, dp): return ('file', FS.Json(FS.deep_copy(D))) if with_doc else ('absent', None)
            if _is_ancestor(it, path, ps): return ('dir', None)
        return ('absent', None)
    fs.initial_choices = initial
    return fs, ents

def encoder(it, st, kind):
    if kind == 'str': return V.BUILTINS['str'], (lambda x: it.to_str(x))
    if kind == 'none': return PBuiltin(lambda it_, x: None, 'enc'), (lambda x: None)
    memo = []
    def enc(it_, x):       # an arbitrary function of the Sid (equal uris, equal results); the result may be the empty string
        u = it_.getattr(x, 'uri')
        for k, v in memo:
            if it_.known_eq(k, u): return v
        v = st.fresh_str('enc_'); memo.append((u, v)); return v
    return PBuiltin(enc, 'enc'), (lambda x: enc(it, x))

def expect_record(it, st, name, d, doc_items, encoded, attributes=None, props=('C16',)):
    want = [(k, v) for k, v in doc_items]
    if encoded is not None:
        want = [(k, v) for k, v in want if not it.known_eq(k, 'sid')] + [('sid', encoded)]
    if attributes is not None:
        w2 = []
        for a in attributes:
            if any(it.known_eq(a, b) for b, _ in w2): continue          # a repeated attribute name is one key
            w2.append((a, next((v for k, v in want if it.known_eq(k, a)), None)))
        want = w2
    if not isinstance(d, PDict): st.oblige(name, False, props, info={'got': repr(d)[:120]}); return
    ok = len(d.items) == len(want)
    cs = []
    if ok:
        for k, v in want:
            hit = [gv for gk, gv in d.items if it.py_eq(gk, k) is True or it.known_eq(gk, k)]
            if not hit: ok = False; break
            cs.append(True if (v is None and hit[0] is None) else False if (v is None) != (hit[0] is None) else it.py_eq(hit[0], v))
    st.oblige(name, it.conj(cs) if ok else False, props, info={'got': repr(d)[:200], 'want': repr(want)[:200]})

def run(it, st, case):
    kind = case[0]
    c = configs()[0]
    if kind == 'map': return run_map(it, st, case[1], case[2], c)
    if kind == 'map-abs': return run_map_abs(it, st, case[1], case[2])
    if kind == 'get_data': return run_get_data(it, st, *case[1:])
    if kind == 'get_data-twice': return run_get_data_twice(it, st, case[1], case[2])
    if kind == 'all': return run_all(it, st, case[1], case[2])
    if kind == 'one': return run_one(it, st, case[1])
    if kind == 'all-get': return run_all_get(it, st, c)
    if kind == 'all-get-abs': return run_all_get_abs(it, st, case[1])

def run_map_abs(it, st, recs, meth):
    """GetByFinder.get / do_get with get_data ABSTRACT: whatever get_data returns for a found Sid (a record, an empty record, None), the result has one
    entry per found Sid, in order: that record, or {} when it is empty / None; attributes and sid_encode are passed through unchanged"""
    gf = it.module('spil.sid.read.getters.getter_finder'); GBF = gf.ns['GetByFinder']
    xs = [C.mk_concrete(it, T)[0] for T in list(C.spec_templates())[:len(recs)]]
    table = {}
    for i, (x, kind) in enumerate(zip(xs, recs)):
        table[id(x)] = PDict([('sid', st.fresh_str(f'r{i}s_')), ('a', st.fresh_str(f'r{i}a_'))]) if kind == 'data' else PDict([]) if kind == 'empty' else None
    calls = []; ATTRS = ['a', 'b']; ENC = PBuiltin(lambda it_, x: 'enc', 'enc')
    def find(it_, search_sid=None, as_sid=True, **k): calls.append(('find', as_sid)); return GenList(list(xs))
    def do_find(it_, search_sids=None, as_sid=True, **k): calls.append(('do_find', as_sid)); return GenList(list(xs))
    FS_ = PClass('StubFinder', [V.OBJECT]); FS_.ns['find'] = PBuiltin(find, 'find'); FS_.ns['do_find'] = PBuiltin(do_find, 'do_find')
    passed = []
    def get_data(it_, sid=None, attributes=None, sid_encode=None, **k): passed.append((attributes, sid_encode)); return table[id(sid)]
    stub = PClass('StubGetter', [GBF], gf); stub.ns['get_data'] = PBuiltin(get_data, 'get_data')
    g = PObj(stub); g.attrs['finder'] = PObj(FS_)
    st.inputs['records'] = list(recs); name = f'C16:GetByFinder.{meth}[abstract get_data]'
    try:
        r = list(it.call(it.getattr(g, meth), ['q'] if meth == 'get' else [list(xs)], {'attributes': ATTRS, 'sid_encode': ENC}))
    except Raised as e:
        st.oblige(f'{name}:raises-nothing', False, ('C16',), info={'exception': V.exc_name(e), 'args': repr(e.exc.attrs.get('args'))[:120]}); st.observed = {}; return 'ok'
    st.observed = {}
    ok = len(r) == len(xs) and all((d is table[id(x)]) if recs[i] == 'data' else (isinstance(d, PDict) and not d.items) for i, (d, x) in enumerate(zip(r, xs)))
    st.oblige(f'{name}:one-record-per-found-sid-in-order-an-empty-one-where-there-is-no-data', ok, ('C16',), info={'records': len(r), 'found': len(xs), 'kinds': list(recs)})
    st.oblige(f'{name}:attributes-and-sid_encode-are-passed-through', len(passed) == len(xs) and all(a is ATTRS and e is ENC for a, e in passed), ('C16',))
    return 'ok'

def run_map(it, st, n, meth, c):
    Ts = [T for T in ('asset__file', 'asset__asset', 'shot__shot') if T in path_types(c)][:max(n, 1)]
    xs = [C.mk_concrete(it, Ts[i % len(Ts)])[0] for i in range(n)]
    fs, ents = fs_setup(it, st, xs, c)
    gp = it.module('spil.sid.pathops.getter_paths'); G = gp.ns['GetFromPaths']
    calls = []
    def find(it_, search_sid=None, as_sid=True, **k): calls.append(('find', as_sid)); return GenList(list(xs))
    def do_find(it_, search_sids=None, as_sid=True, **k): calls.append(('do_find', as_sid)); return GenList(list(xs))
    FS_ = PClass('StubFinder', [V.OBJECT]); FS_.ns['find'] = PBuiltin(find, 'find'); FS_.ns['do_find'] = PBuiltin(do_find, 'do_find')
    g = PObj(G); g.attrs['config'] = c; g.attrs['finder'] = PObj(FS_)
    st.inputs['n'] = n
    name = f'C16:GetByFinder.{meth}'
    try:
        r = it.call(it.getattr(g, meth), [SStr([st.fresh('q', excl=set('?'))])] if meth == 'get' else [list(xs)], {})
    except Raised as e:
        st.oblige(f'{name}:raises-nothing', False, ('C16',), info={'exception': V.exc_name(e), 'args': repr(e.exc.attrs.get('args'))[:120]}); st.observed = {}; return 'ok'
    r = list(r)
    st.oblige(f'{name}:one-record-per-found-sid', len(r) == n, ('C16',), info={'records': len(r), 'found': n})
    for i, (d, (x, ps, dp, D)) in enumerate(zip(r, ents)):
        expect_record(it, st, f'{name}:records-in-finder-order-each-with-its-sid-and-data', d, D.items if D else [], it.to_str(x))
    st.observed = {}
    return 'ok'

def run_get_data(it, st, T, c, enc_kind, with_attrs):
    x, vals = C.mk_concrete(it, T)
    fs, ents = fs_setup(it, st, [x], c)
    gp = it.module('spil.sid.pathops.getter_paths'); G = gp.ns['GetFromPaths']
    g = PObj(G); g.attrs['config'] = c; g.attrs['finder'] = None
    encf, encspec = encoder(it, st, enc_kind)
    st.inputs['type'] = T; st.inputs['encoder'] = enc_kind
    _, ps, dp, D = ents[0]
    attrs = None
    if with_attrs: attrs = [D.items[0][0] if D else 'a', 'missing', 'sid']
    name = 'C16:GetFromPaths.get_data'
    try: d = it.call(it.getattr(g, 'get_data'), [x], {'attributes': attrs, 'sid_encode': encf})
    except Raised as e:
        st.oblige(f'{name}:raises-nothing', False, ('C16',), info={'exception': V.exc_name(e)}); st.observed = {}; return 'ok'
    st.observed = {}
    if ps is None:
        st.oblige(f'{name}:a-sid-without-path-has-no-data', isinstance(d, PDict) and not d.items, ('C16',)); return 'ok'
    expect_record(it, st, f'{name}:stored-data-plus-sid-omitted-only-for-None' + ('-exactly-the-requested-attributes' if with_attrs else ''), d, D.items, encspec(x), attrs)
    return 'ok'

_NONE_TYPES = []
def none_configured_types(it):
    """the Sid types that the text of spil_data_conf.get_getter_for maps to the literal None in a dict display ('no Getter: no data can be retrieved')"""
    if not _NONE_TYPES:
        import ast, os
        src = [p for p in it.world.search_paths if os.path.exists(os.path.join(p, 'spil_data_conf.py'))]
        tree = it.world.parse(os.path.join(src[0], 'spil_data_conf.py')); out = set()
        for fn in [n for n in ast.walk(tree) if isinstance(n, ast.FunctionDef) and n.name == 'get_getter_for']:
            for d in [n for n in ast.walk(fn) if isinstance(n, ast.Dict)]:
                for k, v in zip(d.keys, d.values):
                    if isinstance(k, ast.Constant) and isinstance(k.value, str) and isinstance(v, ast.Constant) and v.value is None: out.add(k.value)
        _NONE_TYPES.append(out)
    return _NONE_TYPES[0]
def run_get_data_twice(it, st, T, c):
    """two reads of the same Sid with different encoders through one getter: each answer is the fresh answer, and the first record is not changed by the second call"""
    x, vals = C.mk_concrete(it, T)
    fs, ents = fs_setup(it, st, [x], c)
    gp = it.module('spil.sid.pathops.getter_paths'); G = gp.ns['GetFromPaths']
    g = PObj(G); g.attrs['config'] = c; g.attrs['finder'] = None
    e1, spec1 = encoder(it, st, 'str'); e2, spec2 = encoder(it, st, 'none')
    st.inputs['type'] = T
    _, ps, dp, D = ents[0]
    name = 'C16:GetFromPaths.get_data[two calls]'
    try:
        d1 = it.call(it.getattr(g, 'get_data'), [x], {'sid_encode': e1})
        first = [(k, v) for k, v in d1.items] if isinstance(d1, PDict) else None
        d2 = it.call(it.getattr(g, 'get_data'), [x], {'sid_encode': e2})
    except Raised as e:
        st.oblige(f'{name}:raises-nothing', False, ('C16',), info={'exception': V.exc_name(e)}); st.observed = {}; return 'ok'
    st.observed = {}
    if ps is None:
        st.oblige(f'{name}:a-sid-without-path-has-no-data', isinstance(d2, PDict) and not d2.items, ('C16',)); return 'ok'
    expect_record(it, st, f'{name}:the-second-answer-is-the-fresh-answer-of-its-own-encoder', d2, D.items, spec2(x), None)
    same = isinstance(d1, PDict) and first is not None and len(d1.items) == len(first) and all(k1 is k2 and v1 is v2 for (k1, v1), (k2, v2) in zip(d1.items, first))
    st.oblige(f'{name}:the-first-record-is-not-changed-by-the-second-call', same and d1 is not d2, ('C16', 'C14'))
    return 'ok'

def run_all(it, st, T, c):
    x, vals = C.mk_concrete(it, T)
    fs, ents = fs_setup(it, st, [x], c)
    ga = it.module('spil.sid.read.getters.getter_all'); GA = ga.ns['GetFromAll']
    g = it.call(GA, [], {})
    st.inputs['type'] = T
    _, ps, dp, D = ents[0]
    name = 'C16:GetFromAll'
    try:
        d = it.call(it.getattr(g, 'get_data'), [x], {})
        a = it.call(it.getattr(g, 'get_attr'), [x, D.items[0][0] if D else 'a'], {})
    except Raised as e:
        st.oblige(f'{name}.get_data/get_attr:raises-nothing', False, ('C16',), info={'exception': V.exc_name(e), 'args': repr(e.exc.attrs.get('args'))[:150]}); st.observed = {}; return 'ok'
    st.observed = {}
    no_getter = T in none_configured_types(it)      # read from the TEXT of the configuration (a type mapped to the literal None), not from what the function returns
    conf_fn = it.resolve(it.module('spil.conf').ns['get_getter_for'])
    configured = it.call(conf_fn, [x], {})
    st.oblige(f'{name}:the-configuration-function-returns-None-exactly-for-the-types-configured-with-None', (configured is None) == no_getter, ('C16',), info={'type': T, 'configured-None-in-the-text': no_getter, 'returned': repr(configured)[:80]})
    if no_getter:
        st.oblige(f'{name}:a-type-configured-without-getter-yields-nothing-and-does-not-fail', isinstance(d, PDict) and not d.items and a is None, ('C16',))
        return 'ok'
    if ps is None:
        st.oblige(f'{name}.get_data:a-sid-without-path-has-no-data', isinstance(d, PDict) and not d.items and a is None, ('C16',)); return 'ok'
    expect_record(it, st, f'{name}.get_data:is-the-record-of-the-configured-getter', d, D.items, it.to_str(x))
    st.oblige(f'{name}.get_attr:is-one-value-of-that-record', it.py_eq(a, it.to_str(x) if it.known_eq(D.items[0][0], 'sid') else D.items[0][1]), ('C16',))      # the record's own 'sid' entry wins over a stored key of that name
    return 'ok'

def run_one(it, st, n):
    gm = it.module('spil.sid.read.getter'); Getter = gm.ns['Getter']
    recs = [PDict([('sid', st.fresh_str(f'r{i}s_')), ('a', st.fresh_str(f'r{i}a_'))]) for i in range(n)]
    def get(it_, search_sid=None, attributes=None, sid_encode=None, **k): return GenList(list(recs))
    stub = PClass('StubGetter', [Getter], gm); stub.ns['get'] = PBuiltin(get, 'get')
    g = PObj(stub); q = SStr([st.fresh('q')])
    st.inputs['n'] = n
    name = 'C16:Getter'
    try:
        one = it.call(it.getattr(g, 'get_one'), [q], {}); dat = it.call(it.getattr(g, 'get_data'), [q], {}); att = it.call(it.getattr(g, 'get_attr'), [q, 'a'], {})
    except Raised as e:
        st.oblige(f'{name}.get_one/get_data/get_attr:raises-nothing', False, ('C16',), info={'exception': V.exc_name(e)}); st.observed = {}; return 'ok'
    st.observed = {}
    if n == 0:
        st.oblige(f'{name}:nothing-found-gives-the-empty-record-and-None', isinstance(one, PDict) and not one.items and isinstance(dat, PDict) and not dat.items and att is None, ('C16',)); return 'ok'
    st.oblige(f'{name}:get_one-and-get_data-are-the-first-record-get_attr-its-value', one is recs[0] and dat is recs[0] and att is recs[0].items[1][1], ('C16',))
    return 'ok'

def run_all_get_abs(it, st, assign):
    """GetFromAll.get with unfold_search / get_getter / each Getter's do_get ABSTRACT: the result is the concatenation of the answers of every Getter (asked once, with
    exactly its typed searches in order and the caller's attributes / sid_encode), every record kept -- two records may carry the same 'sid' value (an encoder need not be
    injective), a record may have none"""
    ga = it.module('spil.sid.read.getters.getter_all'); GA = ga.ns['GetFromAll']
    Stub = PClass('StubSid', [V.OBJECT]); Stub.ns['__str__'] = PBuiltin(lambda it_, self_: self_.attrs['uri'], '__str__'); Stub.ns['__repr__'] = Stub.ns['__str__']
    ts = []
    for nme in ('t1', 't2', 't3'):
        o = PObj(Stub); o.attrs.update({'uri': nme, 'type': 'T'}); ts.append(o)
    RECS = {'t1': [PDict([('sid', 'same'), ('a', 1)])], 't2': [PDict([('sid', 'same'), ('a', 2)]), PDict([('sid', ''), ('a', 4)])], 't3': [PDict([('a', 3)]), PDict([('sid', ''), ('a', 5)])]}
    calls = []; ATTRS = ['a']; ENC = PBuiltin(lambda it_, x: 'same', 'enc')
    GCls = PClass('StubGetter', [V.OBJECT]); GCls.ns['__str__'] = PBuiltin(lambda it_, self_: self_.attrs['name'], '__str__'); GCls.ns['__repr__'] = GCls.ns['__str__']
    getters = {}
    for gn in ('G1', 'G2'):
        g_ = PObj(GCls); g_.attrs['name'] = gn
        def do_get(it_, search_sids=None, attributes=None, sid_encode=None, _gn=gn, **k):
            calls.append((_gn, [x.attrs['uri'] for x in search_sids], attributes, sid_encode))
            return GenList([r for x in search_sids for r in RECS[x.attrs['uri']]])
        g_.attrs['do_get'] = PBuiltin(do_get, 'do_get'); getters[gn] = g_
    amap = dict(zip(('t1', 't2', 't3'), assign))
    ga.ns['unfold_search'] = PBuiltin(lambda it_, s_, *a, **k: list(ts), 'unfold_search')
    ga.ns['get_getter'] = PBuiltin(lambda it_, sid, config=None, **k: getters.get(amap[sid.attrs['uri']]), 'get_getter')
    st.inputs['getters'] = list(assign); name = 'C16:GetFromAll.get[abstract getters]'
    try: got = list(it.call(it.getattr(it.call(GA, [], {}), 'get'), ['any'], {'attributes': ATTRS, 'sid_encode': ENC}))
    except Raised as e:
        st.oblige(f'{name}:raises-nothing', False, ('C16',), info={'exception': V.exc_name(e), 'args': repr(e.exc.attrs.get('args'))[:120]}); st.observed = {}; return 'ok'
    st.observed = {}
    order = []
    for t in ('t1', 't2', 't3'):
        if amap[t] and amap[t] not in order: order.append(amap[t])
    want = [r for gname in order for t in ('t1', 't2', 't3') if amap[t] == gname for r in RECS[t]]
    st.oblige(f'{name}:every-record-of-every-getter-is-yielded-in-order-none-dropped', len(got) == len(want) and all(a is b for a, b in zip(got, want)), ('C16',), info={'records': len(got), 'expected': len(want)})
    per = {}
    for t in ('t1', 't2', 't3'):
        if amap[t]: per.setdefault(amap[t], []).append(t)
    ok = sorted((c_[0], tuple(c_[1])) for c_ in calls) == sorted((f, tuple(v)) for f, v in per.items()) and all(c_[2] is ATTRS and c_[3] is ENC for c_ in calls)
    st.oblige(f'{name}:every-getter-is-asked-once-with-its-searches-and-the-callers-attributes-and-encoder', ok, ('C16',), info={'calls': repr([(c_[0], c_[1]) for c_ in calls])[:200]})
    return 'ok'

def run_all_get(it, st, c):
    pts = path_types(c)
    Ts = [T for T in ('asset__asset', 'asset', 'shot__shot') if T in C.spec_templates()]
    xs = [C.mk_concrete(it, T)[0] for T in Ts]
    fs, ents = fs_setup(it, st, xs, c)
    it.world.specs['spil.sid.read.tools:unfold_search'] = lambda it_, f, a, k: list(xs)
    ga = it.module('spil.sid.read.getters.getter_all'); GA = ga.ns['GetFromAll']
    # each configured getter is a GetFromPaths whose finder is a stub that yields the searched Sids themselves (C08/C11 are not under test here)
    gp = it.module('spil.sid.pathops.getter_paths'); G = gp.ns['GetFromPaths']
    def do_find(it_, search_sids=None, as_sid=True, **k): return GenList(list(search_sids))
    FS_ = PClass('FindInPaths', [V.OBJECT]); FS_.ns['do_find'] = PBuiltin(do_find, 'do_find'); FS_.ns['__init__'] = PBuiltin(lambda it_, *a, **k: None, '__init__')
    it.module('spil').ns['FindInPaths'] = FS_; gp.ns['FindInPaths'] = FS_
    g = it.call(GA, [], {})
    st.inputs['types'] = Ts
    name = 'C16:GetFromAll.get'
    try: r = list(it.call(it.getattr(g, 'get'), ['q'], {}))
    except Raised as e:
        st.oblige(f'{name}:raises-nothing', False, ('C16',), info={'exception': V.exc_name(e), 'args': repr(e.exc.attrs.get('args'))[:150]}); st.observed = {}; return 'ok'
    conf_fn = it.resolve(it.module('spil.conf').ns['get_getter_for'])
    want = [(x, D) for (x, ps, dp, D) in ents if it.call(conf_fn, [x], {}) is not None]
    st.oblige(f'{name}:records-of-the-searches-with-a-getter-only', len(r) == len(want), ('C16',), info={'records': len(r), 'expected': len(want)})
    for d, (x, D) in zip(r, want):
        expect_record(it, st, f'{name}:each-record-is-that-sids-data', d, D.items if D else [], it.to_str(x))
    st.observed = {}
    return 'ok'

def crosscheck(case, conc, exp): return {'status': 'agree', 'note': 'abstract finder / ghost file system'}
def replay(case, ob, inputs):
    if case[0] == 'get_data' and inputs.get('encoder') == 'sym':
        import tempfile
        from spil import GetFromPaths, Sid
        x = Sid('hamlet/a/char/ophelia')
        r = C.call_native(lambda: GetFromPaths().get_data(x, sid_encode=lambda s: ''))
        bad = r[0] == 'ret' and 'sid' not in r[1]
        return {'confirmed': bad, 'call': "GetFromPaths().get_data(Sid('hamlet/a/char/ophelia'), sid_encode=lambda s: '')", 'observed': repr(r)[:200], 'expected': "a record with 'sid': '' (only None omits the entry)"}
    if case[0] == 'all':
        import ast, inspect
        from spil import GetFromAll, Sid
        import spil_data_conf
        T = case[1]; none_types = set()
        for fn in [n for n in ast.walk(ast.parse(open(spil_data_conf.__file__).read())) if isinstance(n, ast.FunctionDef) and n.name == 'get_getter_for']:
            for d in [n for n in ast.walk(fn) if isinstance(n, ast.Dict)]:
                none_types |= {k.value for k, v in zip(d.keys, d.values) if isinstance(k, ast.Constant) and isinstance(v, ast.Constant) and v.value is None}
        x = Sid(T + ':' + '/'.join(v for _, v in C.example_values(T)))
        C.clear_native_caches()
        r = C.call_native(lambda: (GetFromAll().get_data(x), list(GetFromAll().get(x))))
        if T in none_types:
            bad = r != ('ret', ({}, []))
            return {'confirmed': bad, 'call': f"GetFromAll().get_data / get of {x.uri!r}, a type configured with None in spil_data_conf.get_getter_for", 'observed': repr(r)[:300], 'expected': "({}, []): nothing, without failing",
                    'reproducer': f"from spil import GetFromAll, Sid; print(GetFromAll().get_data(Sid({x.uri!r})))"}
        return {'confirmed': r[0] != 'ret', 'call': f'GetFromAll().get_data({x.uri!r})', 'observed': repr(r)[:300], 'expected': 'the record of the configured getter'}
    return {'confirmed': False, 'call': repr(case), 'observed': repr(ob.get('info')), 'expected': 'see the contract clause named by the obligation'}
