"""
pyvc.fsmodel -- ghost file system for the contracts on the writer / getter code (C15, C16, C17).

State: path string -> absent | dir | file(content).  A path that the code asks about and that the harness has not fixed gets an arbitrary
initial state (fork).  Every mutating primitive appends to an *effect trace* with its crash semantics:
  Path.write_text(t) = truncate (file exists, empty)  ;  then the file holds any proper prefix of t  ;  then t
  os.replace(a, b)   = atomic
  Path.mkdir / touch = atomic
These primitive contracts are ASSUMPTIONS about pathlib / os / json (listed in the evidence).
File contents are abstract values: Json(value) (a parsed document), Invalid (not valid JSON: empty or a proper prefix), Unreadable.
"""
from __future__ import annotations
import z3
from .sstr import SStr, S, SBool, Var, simp, OutsideSubset
from . import interp as V
from .interp import PDict, PObj, PClass, PBuiltin, PModule, Raised, Opaque, B_EXC, mk_exc

class Json:
    def __init__(self, value): self.value = value
    def __repr__(self): return f'Json({self.value!r})'
class Invalid:
    def __repr__(self): return 'Invalid'
class Unreadable:
    def __repr__(self): return 'Unreadable'
INVALID = Invalid(); UNREADABLE = Unreadable()

def deep_copy(v):
    if isinstance(v, PDict): return PDict([(k, deep_copy(x)) for k, x in v.items])
    if isinstance(v, list): return [deep_copy(x) for x in v]
    return v

class GhostFS:
    def __init__(self, it):
        self.it = it; self.nodes = []       # [path, kind, content]
        self.trace = []                     # effects in program order
        self.initial_choices = None         # how unknown paths are initialised: callable(path) -> (kind, content) or None for a fork
    # ---- state
    def find(self, path):
        for n in self.nodes:
            if self.it.known_eq(n[0], path): return n
        return None
    def state(self, path):
        n = self.find(path)
        if n is None:
            if self.initial_choices is not None:
                kind, content = self.initial_choices(path)
            else:
                k = self.it.st.pick(3, 'fs:initial-state')
                kind, content = [('absent', None), ('dir', None), ('file', None)][k]
            n = [path, kind, content, kind, content, 0]; self.nodes.append(n)      # [path, kind, content, initial kind, initial content, modification counter]
        return n
    def set(self, path, kind, content=None):
        n = self.state(path)          # materialises the initial state of a path that was never looked at
        n[1] = kind; n[2] = content; n[5] += 1
    def snapshot(self): return [tuple(n) for n in self.nodes]
    def restore(self, snap): self.nodes = [list(n) for n in snap]
    def changed_since(self, snap):
        """paths whose state differs from the snapshot (for a path first looked at after the snapshot: from its initial state)"""
        out = []
        for n in self.nodes:
            b = [m for m in snap if m[0] is n[0]]
            ref = (b[0][1], b[0][2]) if b else (n[3], n[4])
            if ref[0] != n[1] or ref[1] is not n[2]: out.append(n[0])
        return out
    def effect(self, *e): self.trace.append(e)

def parent_of(it, s):
    parts = it.st.rsplit1(S(s), '/', 'path:parent')
    if len(parts) == 1: return '.'
    p = simp(parts[0])
    return p if not (isinstance(p, str) and p == '') else '/'
def name_of(it, s):
    parts = it.st.rsplit1(S(s), '/', 'path:name')
    return simp(parts[-1])
def suffix_of(it, name):
    """PurePath.suffix: name[i:] for the last '.' at 0 < i < len(name)-1, else ''"""
    parts = it.st.rsplit1(S(name), '.', 'path:suffix')
    if len(parts) == 1: return '', name
    stem, ext = simp(parts[0]), simp(parts[1])
    if not it.is_true(stem, 'path:stem-empty') or not it.is_true(ext, 'path:ext-empty'): return '', name
    return it.concat(['.', ext]), stem

def raise_os(name, msg=''): raise Raised(mk_exc(name, msg))
class Handle:
    def __init__(self, path): self.path = path
class OpenCtx:
    def __init__(self, path): self.path = path
    def pyvc_enter(self, it_): return Handle(self.path)
def p_getattr(self, it_, name):
    s = self.s; fs = getattr(it_, 'fs', None); PM = type(self)
    if fs is None and name not in ('as_posix', 'parent', 'name', 'suffix', 'stem', 'with_name', 'with_suffix'): raise OutsideSubset('Path.' + name + ' without a ghost file system')
    if name == 'as_posix': return PBuiltin(lambda it__: s, 'as_posix')
    if name == 'exists': return PBuiltin(lambda it__: fs.state(s)[1] != 'absent', 'exists')
    if name == 'is_file': return PBuiltin(lambda it__: fs.state(s)[1] == 'file', 'is_file')
    if name == 'is_dir': return PBuiltin(lambda it__: fs.state(s)[1] == 'dir', 'is_dir')
    if name == 'parent': return PM(parent_of(it_, s))
    if name == 'name': return name_of(it_, s)
    if name == 'suffix': return suffix_of(it_, name_of(it_, s))[0]
    if name == 'stem': return suffix_of(it_, name_of(it_, s))[1]
    if name == 'with_name': return PBuiltin(lambda it__, n: PM(it__.concat([parent_of(it__, s), '/', n])), 'with_name')
    if name == 'with_suffix':
        def with_suffix(it__, suf):
            nm = name_of(it__, s); _, stem = suffix_of(it__, nm)
            return PM(it__.concat([parent_of(it__, s), '/', stem, suf]))
        return PBuiltin(with_suffix, 'with_suffix')
    if name == 'mkdir':
        def mkdir(it__, mode=0o777, parents=False, exist_ok=False):
            n = fs.state(s)
            if n[1] != 'absent':
                if exist_ok and n[1] == 'dir': return None
                raise_os('FileExistsError', s)
            # ancestors
            chain = []; cur = s
            while True:
                par = parent_of(it__, cur)
                if isinstance(par, str) and par in ('/', '.'): break
                pn = fs.state(par)
                if pn[1] == 'dir': break
                if pn[1] == 'file': raise_os('NotADirectoryError', par)
                if not parents: raise_os('FileNotFoundError', par)
                chain.append(par); cur = par
                if len(chain) > 24: raise OutsideSubset('mkdir: too many missing ancestors')
            for par in reversed(chain): fs.set(par, 'dir'); fs.effect('mkdir', par)
            fs.set(s, 'dir'); fs.effect('mkdir', s)
        return PBuiltin(mkdir, 'mkdir')
    if name == 'touch':
        def touch(it__, *a, **k):
            n = fs.state(s)
            if n[1] == 'absent':
                pn = fs.state(parent_of(it__, s))
                if pn[1] != 'dir': raise_os('FileNotFoundError', s)
                fs.set(s, 'file', Json(None) if False else INVALID); fs.effect('touch', s)     # an empty file is not valid JSON
            elif n[1] == 'dir': pass
        return PBuiltin(touch, 'touch')
    if name == 'open':
        def open_(it__, mode='r', *a, **k):
            n = fs.state(s)
            if n[1] == 'absent': raise_os('FileNotFoundError', s)
            if n[1] == 'dir': raise_os('IsADirectoryError', s)
            if n[2] is UNREADABLE: raise_os('PermissionError', s)
            return OpenCtx(s)
        return PBuiltin(open_, 'open')
    if name == 'write_text':
        def write_text(it__, text, *a, **k):
            n = fs.state(s)
            if n[1] == 'dir': raise_os('IsADirectoryError', s)
            if n[1] == 'absent':
                pn = fs.state(parent_of(it__, s))
                if pn[1] != 'dir': raise_os('FileNotFoundError', s)
            if n[2] is UNREADABLE: raise_os('PermissionError', s)
            content = text.content if isinstance(text, JsonText) else INVALID if not isinstance(text, (str, SStr)) else Json(Opaque('text'))
            fs.effect('truncate', s, n[1], n[2]); fs.set(s, 'file', INVALID)
            fs.effect('partial-write', s)
            fs.set(s, 'file', content); fs.effect('write-complete', s, content)
            return 0
        return PBuiltin(write_text, 'write_text')
    if name == 'read_text':
        raise OutsideSubset('Path.read_text')
    if name in ('rename', 'replace'):        # POSIX: both replace an existing target atomically (os.rename / os.replace)
        def rename(it__, target):
            st_ = it__.to_str(target)
            na = fs.state(s)
            if na[1] == 'absent': raise_os('FileNotFoundError', s)
            fs.set(st_, na[1], na[2]); fs.set(s, 'absent'); fs.effect('replace', s, st_)
            return PM(st_)
        return PBuiltin(rename, name)
    if name == 'stat':
        def stat(it__, *a, **k):
            n = fs.state(s)
            if n[1] == 'absent': raise_os('FileNotFoundError', s)
            o = PObj(PClass('stat_result', [V.OBJECT])); o.attrs.update({'st_mtime_ns': n[5], 'st_mtime': n[5], 'st_size': Opaque('st_size')})     # the modification time changes with every write
            return o
        return PBuiltin(stat, 'stat')
    if name == 'unlink':
        def unlink(it__, missing_ok=False):
            n = fs.state(s)
            if n[1] == 'absent':
                if missing_ok: return None
                raise_os('FileNotFoundError', s)
            fs.set(s, 'absent'); fs.effect('unlink', s)
        return PBuiltin(unlink, 'unlink')
    raise OutsideSubset('Path.' + name)

def install(it, path_model_cls, world_mod):
    """adds the FS methods to PathModel instances of this interpreter and provides os / shutil / json modules"""
    fs = GhostFS(it); it.fs = fs
    PM = path_model_cls
    PM.pyvc_getattr = p_getattr
    PM.pyvc_truthy = lambda self, it_: True
    PM.pyvc_truediv = lambda self, it_, other: PM(it_.concat([self.s, '/', it_.to_str(other)]))
    # ---- exceptions
    for nme, base in [('FileExistsError', 'OSError'), ('NotADirectoryError', 'OSError'), ('IsADirectoryError', 'OSError'), ('PermissionError', 'OSError')]:
        if nme not in B_EXC: B_EXC[nme] = PClass(nme, [B_EXC[base]])
    # ---- json
    JDE = PClass('JSONDecodeError', [B_EXC['ValueError']])
    def json_load(it_, f, *a, **k):
        if not isinstance(f, Handle): raise OutsideSubset('json.load on a non-file')
        n = fs.state(f.path); c = n[2]
        if c is None:       # unknown initial content: fork
            kk = it_.st.pick(3, 'fs:initial-content')
            c = [Json(fs.default_doc() if hasattr(fs, 'default_doc') else PDict()), INVALID, Json(None)][kk]; n[2] = c
        if isinstance(c, Json): return deep_copy(c.value)
        o = PObj(JDE); o.attrs['args'] = ('Expecting value',); raise Raised(o)
    def json_dumps(it_, obj, *a, **k): return JsonText(Json(deep_copy(obj)))
    jm = PModule('json'); jm.ns.update({'load': PBuiltin(json_load, 'json.load'), 'dumps': PBuiltin(json_dumps, 'json.dumps'), 'JSONDecodeError': JDE})
    it.modules['json'] = jm
    # ---- os / shutil
    def os_replace(it_, a, b):
        sa, sb = it_.to_str(a), it_.to_str(b)
        na = fs.state(sa)
        if na[1] == 'absent': raise_os('FileNotFoundError', sa)
        fs.set(sb, na[1], na[2]); fs.set(sa, 'absent'); fs.effect('replace', sa, sb)
    om = it.module('os'); om.ns['replace'] = PBuiltin(os_replace, 'os.replace'); om.ns['rename'] = PBuiltin(os_replace, 'os.rename')
    def copy2(it_, src, dst):
        sd = it_.to_str(dst); fs.set(sd, 'file', INVALID); fs.effect('copy', sd)
    sm = PModule('shutil'); sm.ns['copy2'] = PBuiltin(copy2, 'copy2'); sm.ns['copy'] = PBuiltin(copy2, 'copy'); it.modules['shutil'] = sm
    return fs

class JsonText:
    """result of json.dumps: a text whose parsed value is known"""
    def __init__(self, content): self.content = content
