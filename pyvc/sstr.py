"""
pyvc.sstr -- structured symbolic strings, CPython-regex -> z3 translation, path state and solver portfolio.

A symbolic string is a concatenation of atoms (python str literals and Var leaves).  Every Var carries a set of
excluded characters; operations such as split/count/in on a 1-character separator refine the structure lazily and
*substitute* refined variables in the path condition (leaf-variable discipline, DESIGN 2.3).

Solver portfolio: z3 (python API) first with a short budget; on `unknown` the same query is written as SMT-LIB and
given to /usr/bin/cvc5 --strings-exp while z3 is retried with the full budget; the first definite answer wins.
`unknown` from both is never turned into sat or unsat: it raises Undecided.
"""
from __future__ import annotations
import os, re, time, subprocess, tempfile
import z3
try:
    import re._parser as sre_parse, re._constants as SC
except ImportError:  # pragma: no cover
    import sre_parse, sre_constants as SC

MAXC = 0x2FFFF
_STR = z3.StringSort()
QUICK_MS = int(os.environ.get('PYVC_Z3_QUICK_MS', '250'))
FULL_S = int(os.environ.get('PYVC_SOLVER_S', '20'))
FEAS_S = int(os.environ.get('PYVC_FEAS_S', '8'))
FEAS_RETRY_S = int(os.environ.get('PYVC_FEAS_RETRY_S', '60'))
CVC5 = '/usr/bin/cvc5'

class Infeasible(Exception): pass
class OutsideSubset(Exception): pass
class Undecided(Exception): pass

STATS = {'z3': 0, 'z3_t': 0.0, 'cvc5': 0, 'cvc5_t': 0.0, 'unknown': 0, 'bad_model': 0, 'feas_retry': 0, 'obl_retry': 0}

# ----------------------------------------------------------------------------- regex -> z3
def _rng(a, b): return z3.Range(z3.StringVal(chr(a)), z3.StringVal(chr(b)))
def _union(rs): return rs[0] if len(rs) == 1 else z3.Union(*rs)
def _concat(rs): return rs[0] if len(rs) == 1 else z3.Concat(*rs)
# A-unicode-sym: ASCII digits plus one representative block for all non-ASCII decimal digits
_DIGITS = [(0x30, 0x39), (0x660, 0x669)]
_WORD = [(0x30, 0x39), (0x41, 0x5a), (0x5f, 0x5f), (0x61, 0x7a), (0x660, 0x669), (0xc0, 0xd6)]
_SPACE = [(9, 13), (28, 32), (0x85, 0x85), (0xa0, 0xa0)]

def _ranges(items):
    neg = False; rs = []
    for op, av in items:
        if op == SC.NEGATE: neg = True
        elif op == SC.LITERAL: rs.append((av, av))
        elif op == SC.RANGE: rs.append(tuple(av))
        elif op == SC.CATEGORY and av == SC.CATEGORY_DIGIT: rs.extend(_DIGITS)
        elif op == SC.CATEGORY and av == SC.CATEGORY_WORD: rs.extend(_WORD)
        elif op == SC.CATEGORY and av == SC.CATEGORY_SPACE: rs.extend(_SPACE)
        else: raise OutsideSubset(f'regex charset item {op} {av}')
    if neg:
        rs.sort(); out = []; cur = 0
        for a, b in rs:
            if a > cur: out.append((cur, a - 1))
            cur = max(cur, b + 1)
        if cur <= MAXC: out.append((cur, MAXC))
        rs = out
    return rs
def charset(items):
    rs = _ranges(items)
    if not rs: return z3.Empty(z3.ReSort(_STR))
    return _union([_rng(a, b) for a, b in rs])
def sre_to_z3(tree):
    parts = []
    for op, av in tree:
        if op == SC.LITERAL: parts.append(z3.Re(z3.StringVal(chr(av))))
        elif op == SC.NOT_LITERAL: parts.append(charset([(SC.NEGATE, None), (SC.LITERAL, av)]))
        elif op == SC.IN: parts.append(charset(av))
        elif op == SC.ANY: parts.append(charset([(SC.NEGATE, None), (SC.LITERAL, 10)]))
        elif op == SC.BRANCH: parts.append(_union([sre_to_z3(b) for b in av[1]]))
        elif op == SC.SUBPATTERN: parts.append(sre_to_z3(av[3]))
        elif op == SC.MAX_REPEAT or op == SC.MIN_REPEAT:
            lo, hi, sub = av; r = sre_to_z3(sub)
            if lo == 0 and hi == SC.MAXREPEAT: parts.append(z3.Star(r))
            elif lo == 1 and hi == SC.MAXREPEAT: parts.append(z3.Plus(r))
            elif lo == 0 and hi == 1: parts.append(z3.Option(r))
            elif hi == SC.MAXREPEAT: parts.append(z3.Concat(z3.Loop(r, lo, lo), z3.Star(r)) if lo else z3.Star(r))
            else: parts.append(z3.Loop(r, lo, hi))
        else: raise OutsideSubset(f'regex construct {op}')
    if not parts: return z3.Re(z3.StringVal(''))
    return _concat(parts)

_PAT_CACHE = {}
def pattern_re(pat: str):
    """z3 regex + sre tree of a python pattern *text* (language of fullmatch, no anchors)"""
    if pat not in _PAT_CACHE:
        tree = sre_parse.parse(pat)
        _PAT_CACHE[pat] = (sre_to_z3(tree), list(tree))
    return _PAT_CACHE[pat]

class Chunk:
    """one '/'-separated piece of a compiled template regex: items ('lit', text) | ('grp', name, z3re, sre) | ('anon', None, z3re, sre)"""
    def __init__(self): self.items = []
class TemplateRe:
    """A compiled pattern of the shape ^ ... $ cut into '/'-chunks, from CPython's own parse of the pattern text.
    A single-character item that can match '/' (an unescaped `.`) yields two variants: the item restricted to non-'/'
    characters, and the item being '/' (one more chunk); the variants have different segment counts, so at most one applies."""
    def __init__(self, pattern):
        self.pattern = pattern
        tree = sre_parse.parse(pattern)
        names = {v: k for k, v in tree.state.groupdict.items()}
        items = list(tree)
        if not (items and items[0] == (SC.AT, SC.AT_BEGINNING) and items[-1] == (SC.AT, SC.AT_END)):
            raise OutsideSubset('template regex is not of the shape ^...$: ' + pattern[:60])
        flat = []
        for op, av in items[1:-1]:
            if op == SC.LITERAL: flat.append(('lit', chr(av)))
            elif op == SC.SUBPATTERN and av[0] in names:
                z = sre_to_z3(av[3])
                if not re_excludes(z, '/'): raise OutsideSubset('a named template group may match "/": ' + names[av[0]])
                flat.append(('grp', names[av[0]], z, av[3]))
            elif op in (SC.AT, SC.ASSERT, SC.ASSERT_NOT, SC.GROUPREF):
                raise OutsideSubset(f'regex construct {op} in template')
            else:
                z = sre_to_z3([(op, av)])
                if re_excludes(z, '/'): flat.append(('anon', None, z, [(op, av)]))
                elif op in (SC.ANY, SC.NOT_LITERAL, SC.IN):
                    noslash = z3.Intersect(z, charset([(SC.NEGATE, None), (SC.LITERAL, ord('/'))]))
                    flat.append(('wild', None, noslash, [(op, av)]))
                else: raise OutsideSubset('an anonymous template item may match "/"')
        nw = sum(1 for x in flat if x[0] == 'wild')
        if nw > 3: raise OutsideSubset('too many "/"-matching wildcards in template')
        self.variants = {}
        import itertools
        for choice in itertools.product((False, True), repeat=nw):
            chunks = [Chunk()]; wi = 0
            for x in flat:
                if x[0] == 'wild':
                    as_slash = choice[wi]; wi += 1
                    if as_slash: chunks.append(Chunk()); continue
                    x = ('anon', None, x[2], x[3])
                if x[0] == 'lit':
                    if x[1] == '/': chunks.append(Chunk()); continue
                    c = chunks[-1]
                    if c.items and c.items[-1][0] == 'lit': c.items[-1] = ('lit', c.items[-1][1] + x[1])
                    else: c.items.append(x)
                else: chunks[-1].items.append(x)
            if len(chunks) in self.variants: raise OutsideSubset('two wildcard variants with the same segment count')
            self.variants[len(chunks)] = chunks
        self.chunks = self.variants[min(self.variants)] if nw == 0 else None
        self.nsegs = sorted(self.variants)
    @property
    def nseg(self): return max(self.nsegs)
_TRE = {}
def template_re(pattern):
    if pattern not in _TRE: _TRE[pattern] = TemplateRe(pattern)
    return _TRE[pattern]

_FACT_CACHE = {}
def re_excludes(zre, c):
    """lemma (discharged by z3, cached): no word of L(zre) contains character c"""
    k = ('ex', zre.sexpr(), c)
    if k not in _FACT_CACHE:
        x = z3.String('__x'); sol = z3.Solver(); sol.set('timeout', 20000)
        sol.add(z3.InRe(x, zre), z3.Contains(x, z3.StringVal(c)))
        r = sol.check()
        if r == z3.unknown: raise Undecided('re_excludes')
        _FACT_CACHE[k] = r == z3.unsat
    return _FACT_CACHE[k]
def finite_words(zre, limit=24):
    """all words of L(zre) if there are at most `limit` (else None) -- enumerated by z3 (lemma, cached per pattern)"""
    k = ('fw', zre.sexpr())
    if k not in _FACT_CACHE:
        x = z3.String('__x'); sol = z3.Solver(); sol.set('timeout', 20000)
        sol.add(z3.InRe(x, zre)); ws = []
        while True:
            r = sol.check()
            if r == z3.unsat: break
            if r != z3.sat or len(ws) >= limit: ws = None; break
            w = unescape(sol.model().eval(x, model_completion=True).as_string()); ws.append(w); sol.add(x != z3.StringVal(w))
        _FACT_CACHE[k] = sorted(ws) if ws is not None else None
    return _FACT_CACHE[k]
def words_containing(zre, c, limit=3):
    """all words of L(zre) that contain c, if there are at most `limit` of them (else None); each enumeration step is a z3 query"""
    k = ('wc', zre.sexpr(), c)
    if k not in _FACT_CACHE:
        x = z3.String('__x'); sol = z3.Solver(); sol.set('timeout', 20000)
        sol.add(z3.InRe(x, zre), z3.Contains(x, z3.StringVal(c)))
        ws = []
        while True:
            r = sol.check()
            if r == z3.unsat: break
            if r != z3.sat or len(ws) >= limit: ws = None; break
            w = unescape(sol.model().eval(x, model_completion=True).as_string()); ws.append(w); sol.add(x != z3.StringVal(w))
        _FACT_CACHE[k] = ws
    return _FACT_CACHE[k]
def lit_matches(zre, text):
    k = ('lm', zre.sexpr(), text)
    if k not in _FACT_CACHE:
        sol = z3.Solver(); sol.set('timeout', 20000); sol.add(z3.InRe(z3.StringVal(text), zre))
        r = sol.check()
        if r == z3.unknown: raise Undecided('lit_matches')
        _FACT_CACHE[k] = r == z3.sat
    return _FACT_CACHE[k]

# ----------------------------------------------------------------------------- symbolic strings
class Var:
    __slots__ = ('name',)
    def __init__(self, name): self.name = name
    def __repr__(self): return f'${self.name}'
    @property
    def z(self): return z3.String(self.name)

class SStr:
    __slots__ = ('atoms',)
    def __init__(self, atoms):
        out = []
        for a in atoms:
            if isinstance(a, str):
                if not a: continue
                if out and isinstance(out[-1], str): out[-1] += a
                else: out.append(a)
            else: out.append(a)
        self.atoms = tuple(out)
    def is_lit(self): return all(isinstance(a, str) for a in self.atoms)
    def lit(self): return ''.join(self.atoms)
    def __repr__(self): return 'S<' + ''.join(a if isinstance(a, str) else repr(a) for a in self.atoms) + '>'
    def z(self):
        if not self.atoms: return z3.StringVal('')
        return _concat([z3.StringVal(a) if isinstance(a, str) else a.z for a in self.atoms])
    def __add__(self, o): return SStr(self.atoms + S(o).atoms)
    def __radd__(self, o): return SStr(S(o).atoms + self.atoms)
def S(x):
    if isinstance(x, SStr): return x
    if isinstance(x, str): return SStr([x])
    raise TypeError(x)
def simp(s):
    """literal SStr -> python str"""
    return s.lit() if isinstance(s, SStr) and s.is_lit() else s

class SBool:
    __slots__ = ('z',)
    def __init__(self, z): self.z = z
    def __repr__(self): return f'B<{self.z}>'
def zb(x): return z3.BoolVal(x) if isinstance(x, bool) else x.z

class SInt:
    """symbolic mathematical integer (python ints are unbounded)"""
    __slots__ = ('z',)
    def __init__(self, z): self.z = z
    def __repr__(self): return f'I<{self.z}>'

def unescape(v: str) -> str:
    return re.sub(r'\\u\{([0-9a-fA-F]+)\}', lambda m: chr(int(m.group(1), 16)), v)

# ----------------------------------------------------------------------------- solving
def _cvc5_run(smt, want_model, budget_s):
    opts = [CVC5, '--strings-exp', f'--tlimit={int(budget_s * 1000)}', '--lang=smt2']
    if want_model: opts += ['--produce-models', '--strings-fmf']
    txt = '(set-logic QF_SLIA)\n' + smt + ('\n(get-model)\n' if want_model else '')
    return subprocess.Popen(opts + ['-'], stdin=subprocess.PIPE, stdout=subprocess.PIPE, stderr=subprocess.DEVNULL, text=True), txt

def _parse_cvc5_model(out):
    m = {}
    for mm in re.finditer(r'\(define-fun\s+(\|[^|]*\||\S+)\s+\(\)\s+String\s+"((?:[^"]|"")*)"\)', out):
        name = mm.group(1).strip('|'); m[name] = unescape(mm.group(2).replace('""', '"'))
    for mm in re.finditer(r'\(define-fun\s+(\|[^|]*\||\S+)\s+\(\)\s+Int\s+(\(-\s*\d+\)|-?\d+)\)', out):
        name = mm.group(1).strip('|'); v = mm.group(2).replace('(', '').replace(')', '').replace(' ', ''); m[name] = int(v)
    for mm in re.finditer(r'\(define-fun\s+(\|[^|]*\||\S+)\s+\(\)\s+Bool\s+(true|false)\)', out):
        m[mm.group(1).strip('|')] = mm.group(2) == 'true'
    return m

class Model:
    """uniform view on a z3 model or a parsed cvc5 model: evaluates SStr / names"""
    def __init__(self, zm=None, d=None): self.zm = zm; self.d = d
    def var(self, name, sort='s'):
        if self.zm is not None:
            if sort == 's': return unescape(self.zm.eval(z3.String(name), model_completion=True).as_string())
            if sort == 'i': return self.zm.eval(z3.Int(name), model_completion=True).as_long()
            return bool(self.zm.eval(z3.Bool(name), model_completion=True))
        return self.d.get(name, '' if sort == 's' else 0 if sort == 'i' else False)
    def sstr(self, s):
        if isinstance(s, str): return s
        return ''.join(a if isinstance(a, str) else self.var(a.name) for a in s.atoms)
    def expr(self, e):
        if self.zm is not None: return self.zm.eval(e, model_completion=True)
        names = {}
        def walk(x):
            if z3.is_const(x) and x.decl().kind() == z3.Z3_OP_UNINTERPRETED: names[x.decl().name()] = x
            for ch in x.children(): walk(ch)
        walk(e)
        sub = []
        for n, x in names.items():
            if x.sort() == _STR: sub.append((x, z3.StringVal(self.d.get(n, ''))))
            elif x.sort() == z3.IntSort(): sub.append((x, z3.IntVal(self.d.get(n, 0))))
            else: sub.append((x, z3.BoolVal(bool(self.d.get(n, False)))))
        return z3.simplify(z3.substitute(e, *sub)) if sub else z3.simplify(e)

def model_ok(model, constraints):
    """independent validation of a solver model: every constraint evaluates to true under it"""
    try:
        if model.zm is not None:
            return all(z3.is_true(model.zm.eval(c, model_completion=True)) for c in constraints)
        names = {}
        seen = set()
        def walk(e):
            if e.get_id() in seen: return
            seen.add(e.get_id())
            if z3.is_const(e) and e.decl().kind() == z3.Z3_OP_UNINTERPRETED: names[e.decl().name()] = e
            for ch in e.children(): walk(ch)
        for c in constraints: walk(c)
        sub = []
        for n, e in names.items():
            if e.sort() == _STR: sub.append((e, z3.StringVal(model.d.get(n, ''))))
            elif e.sort() == z3.IntSort(): sub.append((e, z3.IntVal(model.d.get(n, 0))))
            elif e.sort() == z3.BoolSort(): sub.append((e, z3.BoolVal(bool(model.d.get(n, False)))))
        if os.environ.get('PYVC_DEBUG_BADMODEL'):
            for c in constraints:
                if not z3.is_true(z3.simplify(z3.substitute(c, *sub))): print('BADMODEL', c.sexpr()[:400], '->', z3.simplify(z3.substitute(c, *sub)).sexpr()[:300], {k: v for k, v in model.d.items()}, flush=True); break
        return all(z3.is_true(z3.simplify(z3.substitute(c, *sub))) for c in constraints)
    except Exception:
        return False

def _cvc5_api(smt, want_model, budget_s):
    """cvc5 through its python API (in-process); returns (answer, output)"""
    import cvc5
    tm = cvc5.TermManager() if hasattr(cvc5, 'TermManager') else None
    slv = cvc5.Solver(tm) if tm else cvc5.Solver()
    slv.setOption('strings-exp', 'true'); slv.setOption('tlimit-per', str(int(budget_s * 1000)))
    if want_model: slv.setOption('produce-models', 'true'); slv.setOption('strings-fmf', 'true')
    ip = cvc5.InputParser(slv)
    ip.setStringInput(cvc5.InputLanguage.SMT_LIB_2_6, '(set-logic QF_SLIA)\n' + smt + ('\n(get-model)\n' if want_model else ''), 'q')
    sm = ip.getSymbolManager(); outs = []
    while True:
        cmd = ip.nextCommand()
        if cmd.isNull(): break
        o = cmd.invoke(slv, sm)
        if o.strip(): outs.append(o.strip())
        if outs and outs[0] != 'sat': break
    return (outs[0] if outs else ''), '\n'.join(outs)

_RW = {}
def rewrite_finite(c):
    """replace  x in R  (x a variable, L(R) finite and small: lemma by enumeration, cached) by a disjunction of equalities,
    recursively through and/or/not -- equalities are decided far faster than regex memberships by both solvers"""
    k = c.get_id()
    if k in _RW: return _RW[k][1]
    out = c
    try:
        if z3.is_app(c):
            kind = c.decl().kind()
            if kind == z3.Z3_OP_SEQ_IN_RE:
                x, R = c.arg(0), c.arg(1)
                if z3.is_const(x) and x.decl().kind() == z3.Z3_OP_UNINTERPRETED:
                    ws = finite_words(R, limit=16)
                    if ws is not None:
                        out = z3.Or(*[x == z3.StringVal(w) for w in ws]) if len(ws) > 1 else (x == z3.StringVal(ws[0]) if ws else z3.BoolVal(False))
            elif kind in (z3.Z3_OP_AND, z3.Z3_OP_OR, z3.Z3_OP_NOT, z3.Z3_OP_IMPLIES):
                ch = [rewrite_finite(a) for a in c.children()]
                if any(a.get_id() != b.get_id() for a, b in zip(ch, c.children())):
                    out = {z3.Z3_OP_AND: lambda: z3.And(*ch), z3.Z3_OP_OR: lambda: z3.Or(*ch), z3.Z3_OP_NOT: lambda: z3.Not(ch[0]), z3.Z3_OP_IMPLIES: lambda: z3.Implies(ch[0], ch[1])}[kind]()
    except Undecided:
        out = c
    _RW[k] = (c, out)      # keep c alive so that its id is not reused
    return out

def _is_var(e): return z3.is_const(e) and e.decl().kind() == z3.Z3_OP_UNINTERPRETED
def combine_memberships(cs):
    """all top-level regex facts about one variable -- x in R, not (x in R), (x == '' or x in R) -- become ONE membership in the
    intersection (with complements): a single-variable membership is decided by the solvers' regex engines at once, whereas several
    separate (negated) memberships of the same variable are what makes them time out"""
    by = {}; rest = []
    for c in cs:
        x = None; R = None
        try:
            if z3.is_app(c) and c.decl().kind() == z3.Z3_OP_SEQ_IN_RE and _is_var(c.arg(0)): x, R = c.arg(0), c.arg(1)
            elif z3.is_not(c) and c.arg(0).decl().kind() == z3.Z3_OP_SEQ_IN_RE and _is_var(c.arg(0).arg(0)): x, R = c.arg(0).arg(0), z3.Complement(c.arg(0).arg(1))
            elif z3.is_or(c) and c.num_args() == 2:
                a, b = c.arg(0), c.arg(1)
                if b.decl().kind() != z3.Z3_OP_SEQ_IN_RE: a, b = b, a
                if b.decl().kind() == z3.Z3_OP_SEQ_IN_RE and _is_var(b.arg(0)) and z3.is_eq(a):
                    l, r = a.arg(0), a.arg(1); v = b.arg(0)
                    empty = (l.get_id() == v.get_id() and z3.is_string_value(r) and r.as_string() == '') or (r.get_id() == v.get_id() and z3.is_string_value(l) and l.as_string() == '')
                    if empty: x, R = v, z3.Union(z3.Re(z3.StringVal('')), b.arg(1))
        except Exception: x = None
        if x is None: rest.append(c)
        else: by.setdefault(x.get_id(), (x, []))[1].append(R)
    for x, rs in by.values():
        rest.append(z3.InRe(x, z3.Intersect(*rs) if len(rs) > 1 else rs[0]))
    return rest

def solve(constraints, want_model=False, budget_s=None, label=''):
    constraints = combine_memberships([rewrite_finite(c) for c in constraints])
    return _solve(constraints, want_model, budget_s, label)
def _solve(constraints, want_model=False, budget_s=None, label=''):
    """returns ('sat', Model|None, backend) | ('unsat', None, backend) ; raises Undecided.
    Portfolio: z3 with a short budget; on `unknown` cvc5 (python API, same process); then z3 with the full budget."""
    budget_s = budget_s or FULL_S
    sol = z3.Solver(); sol.set('timeout', QUICK_MS)
    for c in constraints: sol.add(c)
    t = time.time(); r = sol.check(); STATS['z3'] += 1; STATS['z3_t'] += time.time() - t
    if os.environ.get('PYVC_SLOW') and time.time() - t > float(os.environ['PYVC_SLOW']):
        print('SLOW', label, r, round(time.time() - t, 2), 'n=', len(constraints), sol.sexpr()[-int(os.environ.get('PYVC_SLOWN', '600')):], flush=True)
    if os.environ.get('PYVC_FORCE_CVC5') and want_model: r = z3.unknown     # test hook: exercise the cvc5 model path
    if r == z3.sat: return 'sat', (Model(zm=sol.model()) if want_model else None), 'z3'
    if r == z3.unsat: return 'unsat', None, 'z3'
    fresh_ = z3.Solver()            # printed from a solver that has not run: check() may eliminate solved variables (x = "lit") from sol's assertions,
    for c in constraints: fresh_.add(c)   # and a model of the reduced text then misses them
    smt = fresh_.to_smt2()
    t = time.time()
    try:
        first, out = _cvc5_api(smt, want_model, budget_s)
    except Exception as e:
        first, out = '', ''
    STATS['cvc5'] += 1; STATS['cvc5_t'] += time.time() - t
    if os.environ.get('PYVC_SLOW') and time.time() - t > float(os.environ['PYVC_SLOW']):
        print('SLOW-CVC5', label, first, round(time.time() - t, 2), 'n=', len(constraints), sol.sexpr()[-int(os.environ.get('PYVC_SLOWN', '600')):], flush=True)
    if first == 'unsat': return 'unsat', None, 'cvc5'
    if first == 'sat':
        if os.environ.get('PYVC_DEBUG_BADMODEL') and want_model: open('/tmp/lastcvc5.txt', 'w').write(smt + '\n;;;;\n' + out)
        return 'sat', (Model(d=_parse_cvc5_model(out)) if want_model else None), 'cvc5'
    sol2 = z3.Solver(); sol2.set('timeout', int(budget_s * 1000))
    for c in constraints: sol2.add(c)
    t2 = time.time(); r2 = sol2.check(); STATS['z3'] += 1; STATS['z3_t'] += time.time() - t2
    if r2 == z3.sat: return 'sat', (Model(zm=sol2.model()) if want_model else None), 'z3'
    if r2 == z3.unsat: return 'unsat', None, 'z3'
    STATS['unknown'] += 1
    if os.environ.get('PYVC_DUMP_UNKNOWN'):
        import hashlib
        txt = smt; fn = os.path.join(os.environ['PYVC_DUMP_UNKNOWN'], hashlib.md5(txt.encode()).hexdigest()[:10] + '.' + label + '.smt2')
        open(fn, 'w').write('(set-logic QF_SLIA)\n' + txt)
    raise Undecided(f'both solvers unknown ({label})')

def _wait(proc, secs):
    try: proc.wait(timeout=secs); return True
    except subprocess.TimeoutExpired: return False

# ----------------------------------------------------------------------------- order atoms: x.u < x.v  <=>  u < v
_ORD_CACHE = {}
def _flat_concat(e, out):
    if z3.is_app(e) and e.decl().kind() == z3.Z3_OP_SEQ_CONCAT:
        for ch in e.children(): _flat_concat(ch, out)
    elif z3.is_string_value(e):
        v = e.as_string() if not hasattr(e, 'py_value') else e.py_value()
        if v: out.append(v)
    else: out.append(e)
    return out
def _unflat(atoms):
    zs = [z3.StringVal(a) if isinstance(a, str) else a for a in atoms]
    if not zs: return z3.StringVal('')
    return zs[0] if len(zs) == 1 else z3.Concat(*zs)
def simp_order(e):
    """rewrite every str.< / str.<= atom inside e by dropping the common leading part of its two sides (and deciding it when the next characters
    are different literals).  Needed because a comparison emitted before a variable was refined to a literal stays in the path condition."""
    k = e.get_id()
    if k in _ORD_CACHE: return _ORD_CACHE[k][1]
    r = _simp_order(e); _ORD_CACHE[k] = (e, r)        # keep e alive so that ids are not reused
    if len(_ORD_CACHE) > 200000: _ORD_CACHE.clear()
    return r
def _simp_order(e):
    if not z3.is_app(e) or e.num_args() == 0: return e
    kind = e.decl().kind()
    if kind in (z3.Z3_OP_STRING_LT, z3.Z3_OP_STRING_LE):
        la, lb = _flat_concat(e.arg(0), []), _flat_concat(e.arg(1), [])
        # merge adjacent literals
        def merge(l):
            o = []
            for a in l:
                if isinstance(a, str) and o and isinstance(o[-1], str): o[-1] += a
                else: o.append(a)
            return o
        la, lb = merge(la), merge(lb); changed = False
        while la and lb:
            x, y = la[0], lb[0]
            if isinstance(x, str) and isinstance(y, str):
                n = 0
                while n < len(x) and n < len(y) and x[n] == y[n]: n += 1
                if n < len(x) and n < len(y): return z3.BoolVal(x[n] < y[n])
                if n == 0: break
                la[0] = x[n:]; lb[0] = y[n:]; changed = True
                if not la[0]: la.pop(0)
                if not lb[0]: lb.pop(0)
                continue
            if not isinstance(x, str) and not isinstance(y, str) and x.eq(y): la.pop(0); lb.pop(0); changed = True; continue
            break
        if not la and not lb: return z3.BoolVal(kind == z3.Z3_OP_STRING_LE)
        if not lb and kind == z3.Z3_OP_STRING_LE: return _unflat(la) == z3.StringVal('')
        if not changed: return e
        za, zb_ = _unflat(la), _unflat(lb)
        return za < zb_ if kind == z3.Z3_OP_STRING_LT else za <= zb_
    if e.sort().kind() != z3.Z3_BOOL_SORT: return e
    ch = e.children(); nch = [simp_order(c) for c in ch]
    if all(a.eq(b) for a, b in zip(ch, nch)): return e
    return e.decl()(*nch)

# ----------------------------------------------------------------------------- path state
DERIVE_CHARS = '/_.\n?:,&=%+#;~*<> \t\r'
def _inre_mentions(c, vid):
    """does c contain a regex membership whose string argument mentions the variable with id vid"""
    stack = [c]; seen = set()
    while stack:
        x = stack.pop()
        if x.get_id() in seen: continue
        seen.add(x.get_id())
        if z3.is_app(x) and x.decl().kind() == z3.Z3_OP_SEQ_IN_RE:
            st2 = [x.arg(0)]
            while st2:
                y = st2.pop()
                if y.get_id() == vid: return True
                st2.extend(y.children())
            continue
        stack.extend(x.children())
    return False
def _has_vars(e):
    seen = set(); stack = [e]
    while stack:
        x = stack.pop()
        if x.get_id() in seen: continue
        seen.add(x.get_id())
        if z3.is_const(x) and x.decl().kind() == z3.Z3_OP_UNINTERPRETED: return True
        stack.extend(x.children())
    return False
class PathState:
    def __init__(self, decisions=()):
        self.decisions = list(decisions); self.pos = 0
        self.pc = []; self.excl = {}; self.subst = {}; self.nvars = 0; self.derived = {}; self.nonempty = set(); self.pattern_of = {}; self.domain = {}; self.subst_log = []; self.soft = []
        self.pending = []   # alternative decision prefixes discovered
        self.log = []
        self.inputs = {}    # name -> symbolic value (for concretisation)
        self.obligations = []
        self.notes = []
    # ---- variables
    def fresh(self, hint, excl=()):
        self.nvars += 1
        v = Var(f'{hint}{self.nvars}')
        self.excl[v.name] = set(excl)
        return v
    def fresh_str(self, hint, excl=(), pattern=None, nonempty=False):
        v = self.fresh(hint, excl)
        if pattern is not None:
            zre, _ = pattern_re(pattern); self.pattern_of[v.name] = zre
            ws = finite_words(zre)
            if ws is not None: self.domain[v.name] = list(ws)       # finite-domain variable: represented by equalities, not by a regex
            else: self.assume(z3.InRe(v.z, zre))
            for c in DERIVE_CHARS:
                if re_excludes(zre, c): self.excl[v.name].add(c); self.derived.setdefault(v.name, set()).add(c)
        if nonempty: self.assume(v.z != z3.StringVal('')); self.nonempty.add(v.name)
        return SStr([v])
    def absent_expr(self, v, c):
        """z3 formula for `c not in v` together with v's current exclusions"""
        if v.name in self.domain: return z3.Not(self.contains_expr(v, c))
        return z3.InRe(v.z, self.excl_re((self.excl.get(v.name, set()) - self.derived.get(v.name, set())) | {c}))
    def dom(self, name):
        ex = self.excl.get(name, ())
        ws = [w for w in self.domain[name] if not any(ch in w for ch in ex)]
        if name in self.nonempty: ws = [w for w in ws if w]
        return ws
    def contains_expr(self, v, c):
        if v.name in self.domain:
            ws = [w for w in self.dom(v.name) if c in w]
            return z3.Or(*[v.z == z3.StringVal(w) for w in ws]) if len(ws) > 1 else (v.z == z3.StringVal(ws[0]) if ws else z3.BoolVal(False))
        return self._contains_expr(v, c)
    def _contains_expr(self, v, c):
        """z3 formula for `c in v` (v a leaf Var).  If v carries a pattern with at most 3 words containing c (lemma discharged by z3,
        cached per pattern) the formula is a disjunction of equalities, which the solvers decide much faster than str.contains."""
        zre = self.pattern_of.get(v.name)
        if zre is not None:
            ws = words_containing(zre, c)
            if ws is not None:
                if not ws: return z3.BoolVal(False)
                return z3.Or(*[v.z == z3.StringVal(w) for w in ws]) if len(ws) > 1 else v.z == z3.StringVal(ws[0])
        return z3.Contains(v.z, z3.StringVal(c))
    def excl_re(self, chars):
        return z3.Star(charset([(SC.NEGATE, None)] + [(SC.LITERAL, ord(c)) for c in sorted(chars)]))
    def assume(self, c):
        self.pc.append(c)
    def _constraints(self, extra=(), all_domains=False):
        cs = []; ids = set()
        for c in list(self.pc) + list(extra):
            if c.get_id() in ids: continue
            ids.add(c.get_id())
            if z3.is_true(c): continue
            c2 = simp_order(c)
            if c2 is not c:
                c2 = z3.simplify(c2)
                if z3.is_true(c2): continue
            cs.append(c2)
        names = set()
        seen = set()
        def walk(e):
            if e.get_id() in seen: return
            seen.add(e.get_id())
            if z3.is_const(e) and e.decl().kind() == z3.Z3_OP_UNINTERPRETED and e.sort() == _STR: names.add(e.decl().name())
            for ch in e.children(): walk(ch)
        for c in cs: walk(c)
        for n in self.domain:
            if not self.dom(n): cs.append(z3.BoolVal(False)); break      # a finite-domain variable with no admissible word left: infeasible
        if all_domains: names |= set(self.domain)       # model queries: every finite-domain variable takes a value of its domain
        for n in sorted(names):
            if n in self.domain:
                ws = self.dom(n)
                cs.append(z3.Or(*[z3.String(n) == z3.StringVal(w) for w in ws]) if len(ws) > 1 else (z3.String(n) == z3.StringVal(ws[0]) if ws else z3.BoolVal(False)))
                continue
            ex = self.excl.get(n, set()) - self.derived.get(n, set())    # derived exclusions are implied by the variable's own pattern constraint
            if ex: cs.append(z3.InRe(z3.String(n), self.excl_re(ex)))
        return cs
    def _sliced(self, extra):
        """cone of influence: the constraints that share variables (transitively) with `extra`.  The path condition is satisfiable by
        invariant, so components that do not touch `extra` cannot make pc + extra unsatisfiable; an `unsat` of the slice is an `unsat` of the whole."""
        cs = self._constraints(extra)
        if not extra or len(cs) < 12 or os.environ.get('PYVC_NOSLICE'): return cs
        def vars_of(e, memo={}):
            k = e.get_id()
            if k in memo: return memo[k][0]
            out = set(); stack = [e]; seen = set()
            while stack:
                x = stack.pop()
                if x.get_id() in seen: continue
                seen.add(x.get_id())
                if z3.is_const(x) and x.decl().kind() == z3.Z3_OP_UNINTERPRETED: out.add(x.decl().name())
                stack.extend(x.children())
            memo[k] = (out, e)
            return out
        vs = [vars_of(c) for c in cs]
        want = set()
        for e in extra: want |= vars_of(e)
        if not want: return cs
        changed = True
        while changed:
            changed = False
            for v in vs:
                if v & want and not v <= want: want |= v; changed = True
        return [c for c, v in zip(cs, vs) if (v & want) or not v]
    def feasible(self, extra=()):
        cs = self._sliced(list(extra))
        try: r = solve(cs, label='feasibility', budget_s=FEAS_S)
        except Undecided:
            # both solvers ran out of their (wall-clock) budget: on a busy machine that happens to queries that take 2-5 s alone.  One retry with a
            # budget sized for a fully loaded 16-core machine, so that the verdict of a check does not depend on what else is running.
            STATS['feas_retry'] = STATS.get('feas_retry', 0) + 1
            r = solve(cs, label='feasibility-retry', budget_s=FEAS_RETRY_S)
        return r[0] == 'sat'
    def model(self, extra=(), budget_s=None):
        cs = self._constraints(extra, all_domains=True)
        r = solve(cs, want_model=True, label='model', budget_s=budget_s)
        if r[0] != 'sat': raise Undecided('model query on infeasible state')
        if not model_ok(r[1], cs):
            STATS['bad_model'] = STATS.get('bad_model', 0) + 1
            raise Undecided(f'solver ({r[2]}) returned a model that does not satisfy the constraints')
        if self.soft and not model_ok(r[1], self.soft):
            cs2 = cs + list(self.soft)          # exact query
            r = solve(cs2, want_model=True, label='model-exact', budget_s=budget_s)
            if r[0] != 'sat': raise Undecided('state is infeasible once the soft constraints are enforced')
            if not model_ok(r[1], cs2): raise Undecided('invalid model')
        return r[1]
    def resolve_expr(self, e):
        """apply every variable refinement made so far to a z3 expression built earlier on this path"""
        for pair in self.subst_log: e = z3.substitute(e, pair)
        return e
    def prove(self, cond):
        if isinstance(cond, SBool): cond = SBool(self.resolve_expr(cond.z))
        r = self._prove(cond)
        return r
    def _prove(self, cond):
        """('discharged', backend) | ('refuted', Model) | ('undecided', why) for: pc ==> cond"""
        if cond is True: return 'discharged', 'structural'
        if cond is False:
            try: return 'refuted', self.model()
            except Undecided as e: return 'undecided', str(e)
        try:
            try:
                r0 = solve(self._sliced([z3.Not(cond.z)]), label='obligation-slice')        # unsat of the slice discharges the obligation
                if r0[0] == 'unsat': return 'discharged', r0[2]
                r = solve(self._constraints([z3.Not(cond.z)], all_domains=True), want_model=True, label='obligation')
            except Undecided:
                STATS['obl_retry'] = STATS.get('obl_retry', 0) + 1          # one retry with a budget sized for a fully loaded machine (see feasible)
                r = solve(self._constraints([z3.Not(cond.z)], all_domains=True), want_model=True, label='obligation-retry', budget_s=FEAS_RETRY_S)
        except Undecided as e: return 'undecided', str(e)
        if r[0] == 'unsat': return 'discharged', r[2]
        cs = self._constraints([z3.Not(cond.z)], all_domains=True)
        if not model_ok(r[1], cs):
            STATS['bad_model'] = STATS.get('bad_model', 0) + 1
            return 'undecided', f'solver ({r[2]}) returned a counter-model that does not satisfy the constraints'
        if self.soft and not model_ok(r[1], self.soft):
            try: r = solve(cs + list(self.soft), want_model=True, label='obligation-exact')
            except Undecided as e: return 'undecided', str(e)
            if r[0] == 'unsat': return 'discharged', r[2]
            if not model_ok(r[1], cs + list(self.soft)): return 'undecided', 'invalid counter-model'
        return 'refuted', r[1]
    # ---- decisions
    def do_subst(self, v, atoms):
        """v := atoms ; rewrite pc so that only leaf vars occur"""
        self.subst[v.name] = tuple(atoms)
        rep = SStr(atoms).z()
        self.subst_log.append((v.z, rep))
        if v.name in self.domain:
            ws = self.dom(v.name); del self.domain[v.name]
            if len(atoms) == 1 and isinstance(atoms[0], Var) and atoms[0].name in self.domain:
                self.domain[atoms[0].name] = [w for w in self.domain[atoms[0].name] if w in ws]
            elif len(atoms) == 1 and isinstance(atoms[0], Var):
                self.domain[atoms[0].name] = ws       # the target inherits the finite domain (its own constraints stay in pc)
            elif all(isinstance(a, str) for a in atoms):
                if ''.join(atoms) not in ws: self.pc.append(z3.BoolVal(False))
            else:
                self.pc.append(z3.Or(*[rep == z3.StringVal(w) for w in ws]) if ws else z3.BoolVal(False))
        out = []; ids = set()
        self.soft = [z3.substitute(c, (v.z, rep)) for c in self.soft]
        for c in self.pc:
            c2 = z3.substitute(c, (v.z, rep))
            if len(atoms) > 1 and c2.get_id() != c.get_id() and c.decl().kind() in (z3.Z3_OP_NOT, z3.Z3_OP_OR, z3.Z3_OP_AND) and _inre_mentions(c, v.z.get_id()):
                # a negated membership of the refined variable becomes a negated membership of a concatenation: the query class both
                # solvers fail on.  It is kept as a *soft* constraint: left out of feasibility queries (over-approximation, sound for
                # proving) and enforced on every model that is used as a witness (see model / prove).
                self.soft.append(c2); continue
            if c2.get_id() != c.get_id() and not _has_vars(c2): c2 = z3.simplify(c2)      # ground after substitution: evaluate
            if z3.is_true(c2) or c2.get_id() in ids: continue
            ids.add(c2.get_id()); out.append(c2)
        self.pc = out
    def choose(self, options, label=''):
        """options: list of (name, [constraints]) ; returns index taken; registers siblings."""
        if self.pos < len(self.decisions):
            k = self.decisions[self.pos]; self.pos += 1
        else:
            feas = []
            for i, (_, cs) in enumerate(options):
                # invariant: pc is satisfiable; for an exhaustive two-way split (branch) an infeasible first side makes the second feasible without a query
                if getattr(self, '_exhaustive', False) and i == len(options) - 1 and not feas: feas.append(i); break
                if self.feasible(cs): feas.append(i)
            if not feas: raise Infeasible()
            k = feas[0]
            for j in feas[1:]: self.pending.append(self.decisions[:self.pos] + [j])
            self.decisions.append(k); self.pos += 1
        for c in options[k][1]: self.assume(c)
        self.log.append((label, options[k][0]))
        return k
    def branch(self, cond, label=''):
        if isinstance(cond, bool): return cond
        # a condition that was already decided on this path keeps its truth value (z3 terms are hash-consed: same structure, same id)
        memo = self.__dict__.setdefault('_decided', {})
        k = cond.z.get_id()
        if k in memo and not os.environ.get('PYVC_NOMEMO'):
            r = memo[k][0]
            self.pc.append(cond.z if r else z3.Not(cond.z))      # kept (redundantly) so that callers that pop "their" constraint stay balanced
            return r
        r = self._branch(cond, label)
        memo[k] = (r, cond.z)          # the term is kept alive so that its id is not reused
        if z3.is_not(cond.z): memo[cond.z.arg(0).get_id()] = (not r, cond.z.arg(0))
        return r
    def _branch(self, cond, label=''):
        self._exhaustive = True
        try: k = self.choose([('T', [cond.z]), ('F', [z3.Not(cond.z)])], label)
        finally: self._exhaustive = False
        return k == 0
    def pick(self, n, label=''):
        """non-deterministic choice among n alternatives (harness-level case split)"""
        return self.choose([(str(i), []) for i in range(n)], label)
    # ---- string structure
    def norm(self, s):
        s = S(s); changed = True
        while changed:
            changed = False; out = []
            for a in s.atoms:
                if isinstance(a, Var) and a.name in self.subst: out.extend(self.subst[a.name]); changed = True
                else: out.append(a)
            s = SStr(out)
        return s
    def free_of(self, a, c): return isinstance(a, str) and c not in a or (isinstance(a, Var) and c in self.excl.get(a.name, ()))
    def str_free_of(self, s, c): return all(self.free_of(a, c) for a in self.norm(s).atoms)
    def refine_first(self, v, c, label=''):
        """decide whether leaf Var v contains char c; if so v := a c b (a c-free)."""
        ex = self.excl.get(v.name, set())
        k = self.choose([(f'{c!r} not in {v}', [self.absent_expr(v, c)]),
                         (f'{v}=a{c}b', [self.contains_expr(v, c)])], label)
        self.pc.pop()   # the decision is recorded structurally below, not as a constraint
        if k == 0:
            self.excl[v.name] = ex | {c}
        else:
            n = len(self.subst)
            a = Var(f'{v.name}.{n}a'); b = Var(f'{v.name}.{n}b')
            self.excl[a.name] = ex | {c}; self.excl[b.name] = set(ex)
            self.do_subst(v, (a, c, b))
        return k
    def refine_last(self, v, c, label=''):
        """v := a c b with b c-free (last occurrence), or v is c-free"""
        ex = self.excl.get(v.name, set())
        k = self.choose([(f'{c!r} not in {v}', [self.absent_expr(v, c)]),
                         (f'{v}=a{c}b(last)', [self.contains_expr(v, c)])], label)
        self.pc.pop()
        if k == 0: self.excl[v.name] = ex | {c}
        else:
            n = len(self.subst)
            a = Var(f'{v.name}.{n}a'); b = Var(f'{v.name}.{n}b')
            self.excl[a.name] = set(ex); self.excl[b.name] = ex | {c}
            self.do_subst(v, (a, c, b))
        return k
    def split(self, s, c, maxsplit=-1, label='', max_open=4):
        """python str.split(c, maxsplit) for 1-char c. Returns (parts:list[SStr], open_tail:bool).
        Without maxsplit the string is refined up to max_open parts; beyond that the tail is left opaque (open_tail)."""
        parts = [[]]; open_tail = False
        work = list(self.norm(s).atoms)
        while work:
            a = work.pop(0)
            if maxsplit >= 0 and len(parts) - 1 >= maxsplit:
                parts[-1].append(a); continue
            if isinstance(a, str):
                if c in a:
                    i = a.index(c); parts[-1].append(a[:i]); parts.append([]); work.insert(0, a[i + 1:])
                else: parts[-1].append(a)
            elif self.free_of(a, c): parts[-1].append(a)
            else:
                if len(parts) >= max_open and maxsplit < 0:
                    parts[-1].append(a); open_tail = True; continue
                self.refine_first(a, c, label)
                work = list(self.norm(SStr([a])).atoms) + work
        return [SStr(p) for p in parts], open_tail
    def rsplit1(self, s, c, label=''):
        """python s.rsplit(c, 1) for 1-char c"""
        atoms = list(self.norm(s).atoms); tail = []
        while atoms:
            a = atoms.pop()
            if isinstance(a, str):
                if c in a:
                    i = a.rindex(c); return [SStr(atoms + [a[:i]]), SStr([a[i + 1:]] + tail)]
                tail.insert(0, a)
            elif self.free_of(a, c): tail.insert(0, a)
            else:
                self.refine_last(a, c, label)
                atoms.extend(self.norm(SStr([a])).atoms)
        return [SStr(tail)]
    def contains_char(self, s, c, label=''):
        parts, _ = self.split(s, c, 1, label)
        return len(parts) > 1
    def subst_lit(self, s, lit):
        """record that the single-variable string s equals the literal (after the equality was assumed)"""
        s = self.norm(s)
        if len(s.atoms) == 1 and isinstance(s.atoms[0], Var): self.do_subst(s.atoms[0], (lit,) if lit else ())
    def eq(self, a, b):
        a = self.norm(a); b = self.norm(b)
        if a.atoms == b.atoms: return True
        if a.is_lit() and b.is_lit(): return a.lit() == b.lit()
        for x, y in ((a, b), (b, a)):
            if len(x.atoms) == 1 and isinstance(x.atoms[0], Var) and x.atoms[0].name in self.domain and y.is_lit():
                if y.lit() not in self.dom(x.atoms[0].name): return False
        # strip common literal/variable prefix and suffix (sound: x.u == x.v <=> u == v)
        la, lb = list(a.atoms), list(b.atoms)
        while la and lb and type(la[0]) is type(lb[0]) and (la[0] == lb[0] if isinstance(la[0], str) else la[0].name == lb[0].name): la.pop(0); lb.pop(0)
        while la and lb and type(la[-1]) is type(lb[-1]) and (la[-1] == lb[-1] if isinstance(la[-1], str) else la[-1].name == lb[-1].name): la.pop(); lb.pop()
        if (la, lb) != (list(a.atoms), list(b.atoms)): return self.eq(SStr(la), SStr(lb))
        for c in '?:/&=,':
            if all(self.free_of(x, c) or isinstance(x, str) for x in a.atoms + b.atoms):
                pa = self._split_known(a, c); pb = self._split_known(b, c)
                if len(pa) != len(pb): return False
                if len(pa) > 1:
                    rs = [self.eq(x, y) for x, y in zip(pa, pb)]
                    if any(r is False for r in rs): return False
                    zs = [r.z for r in rs if r is not True]
                    if not zs: return True
                    return SBool(z3.And(*zs) if len(zs) > 1 else zs[0])
        return SBool(a.z() == b.z())
    def unify(self, a, b):
        """after a == b was assumed: substitute variable-for-variable / variable-for-literal where the two strings align at separators"""
        a = self.norm(a); b = self.norm(b)
        for c in '?:/&=,':
            if all(self.free_of(x, c) or isinstance(x, str) for x in a.atoms + b.atoms):
                pa = self._split_known(a, c); pb = self._split_known(b, c)
                if len(pa) == len(pb) and len(pa) > 1:
                    for x, y in zip(pa, pb): self.unify(x, y)
                    return
        if len(a.atoms) == 1 and isinstance(a.atoms[0], Var) and b.is_lit(): self.do_subst(a.atoms[0], b.atoms); return
        if len(b.atoms) == 1 and isinstance(b.atoms[0], Var) and a.is_lit(): self.do_subst(b.atoms[0], a.atoms); return
        if len(a.atoms) == 1 and len(b.atoms) == 1 and isinstance(a.atoms[0], Var) and isinstance(b.atoms[0], Var) and a.atoms[0].name != b.atoms[0].name:
            va, vb = a.atoms[0], b.atoms[0]
            ex = self.excl.get(va.name, set()) | self.excl.get(vb.name, set())
            dv = self.derived.get(va.name, set()) & self.derived.get(vb.name, set())   # only what both patterns imply stays "derived"... conservative: re-assert the rest
            self.excl[va.name] = ex; self.derived[va.name] = self.derived.get(va.name, set()) | self.derived.get(vb.name, set())
            if vb.name in self.nonempty: self.nonempty.add(va.name)
            self.do_subst(vb, (va,))
    def _split_known(self, s, c):
        parts = [[]]
        for a in s.atoms:
            if isinstance(a, str):
                bits = a.split(c); parts[-1].append(bits[0])
                for bit in bits[1:]: parts.append([bit])
            else: parts[-1].append(a)
        return [SStr(p) for p in parts]
    def truthy_str(self, s):
        s = self.norm(s)
        if any(isinstance(a, str) or a.name in self.nonempty for a in s.atoms): return True
        if not s.atoms: return False
        return SBool(s.z() != z3.StringVal(''))
    def in_re(self, s, zre, src=None):
        s = self.norm(S(s))
        if s.is_lit(): return lit_matches(zre, s.lit())
        if len(s.atoms) == 1 and s.atoms[0].name in self.domain:
            v = s.atoms[0]; ws = self.dom(v.name); ok = [w for w in ws if lit_matches(zre, w)]
            if len(ok) == len(ws): return True if ws else SBool(z3.BoolVal(False))
            if not ok: return False
            return SBool(z3.Or(*[v.z == z3.StringVal(w) for w in ok]) if len(ok) > 1 else v.z == z3.StringVal(ok[0]))
        return SBool(z3.InRe(s.z(), zre))
    # ---- obligations
    def oblige(self, name, cond, props=(), info=None):
        """record a proof obligation  pc ==> cond"""
        t = time.time()
        status, data = self.prove(cond)
        ob = {'name': name, 'status': status, 'props': list(props), 't': round(time.time() - t, 4)}
        if status == 'discharged': ob['backend'] = data
        elif status == 'refuted': ob['model'] = data
        else: ob['why'] = data
        if info: ob['info'] = info
        self.obligations.append(ob)
        return status == 'discharged'
