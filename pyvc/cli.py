"""./check <Cxx> [--tier quick|thorough]   |   ./check --replay <file>"""
from __future__ import annotations
import sys, os, json, argparse, warnings
warnings.simplefilter('ignore')
VERIF = os.path.dirname(os.path.dirname(os.path.abspath(__file__)))
sys.path.insert(0, VERIF)
sys.setrecursionlimit(20000)

def main():
    ap = argparse.ArgumentParser()
    ap.add_argument('prop', nargs='?')
    ap.add_argument('--tier', default=os.environ.get('VERIF_TIER', 'quick'))
    ap.add_argument('--replay')
    ap.add_argument('--only', help='debug: run only the cases whose repr contains this text (never used by registered commands)')
    a = ap.parse_args()
    seed = int(os.environ.get('VERIF_SEED', '0') or 0)
    if a.replay:
        from pyvc import replay
        sys.exit(replay.main(a.replay))
    from pyvc import engine
    try:
        code, ev = engine.check(a.prop, a.tier, seed, only=a.only)
    except Exception:
        import traceback; traceback.print_exc()
        print('CHECKER-FAULT: uncaught exception in the checker')
        sys.exit(3)
    sys.exit(code)
if __name__ == '__main__': main()
