"""
pyvc.world -- configuration snapshot taken from the *real* loader, and the modelled boundary:
  re.Pattern.search / Match.groupdict (CPython semantics incl. `$` before a final newline), urllib.parse on the
  stated domain, pathlib.Path as identity on normalised posix strings, functools, importlib, logging.
resolva's own source (installed package) is interpreted, not modelled; only its Resolver instances are built from the
snapshot (their __init__ uses re.sub callbacks, outside the subset).
"""
from __future__ import annotations
import os, io, contextlib, hashlib, sys
import z3
from .sstr import (SStr, S, SBool, Var, PathState, Infeasible, OutsideSubset, Undecided, TemplateRe, template_re, re_excludes, lit_matches, simp, zb, _concat)
from . import interp as V
from .interp import (PDict, PSet, PObj, PClass, PFunc, PBound, PBuiltin, PModule, Lazy, Opaque, OpenList, Raised, Interp, World, B_EXC, mk_exc)

REPO = os.environ.get('PYVC_REPO', '/repo')
SITE = '/venv/lib/python3.12/site-packages'
SNAP = None

def take_snapshot():
    """run the repository's own loader and record the tables the verified functions read"""
    global SNAP
    if SNAP is not None: return SNAP
    with contextlib.redirect_stdout(io.StringIO()):
        import warnings; warnings.simplefilter('ignore')
        import spil
        from spil import conf
        from resolva import Resolver
        from spil.sid.pathops.pathconfig import get_path_config
    assert os.path.realpath(spil.__file__).startswith(os.path.realpath(REPO)), (spil.__file__, REPO)
    snap = {'conf': {}, 'resolvers': {}, 'pathconf': {}}
    for k, v in vars(conf).items():
        if k.startswith('__'): continue
        if _convertible(v): snap['conf'][k] = v
    snap['conf']['sid_templates'] = dict(conf.sid_templates)
    names = {'sid': 'sid'}
    for c in conf.path_configs:
        pc = get_path_config(c); names[c] = pc.name
        snap['pathconf'][c] = {k: v for k, v in vars(pc).items() if _convertible(v)}
    for rid in sorted(set(names.values())):
        r = Resolver.get(rid)
        snap['resolvers'][rid] = {'patterns': dict(r.get_patterns()), 'regex': {k: v.pattern for k, v in r.get_regexes().items()},
                                  'formats': dict(r.get_formats()), 'keys': {k: sorted(v) for k, v in r.get_keys().items()},
                                  'check_dup': r.check_duplicate_placeholders}
    import resolva
    snap['resolva_dir'] = os.path.dirname(resolva.__file__)
    SNAP = snap
    return snap

def _convertible(v, depth=0):
    if v is None or isinstance(v, (str, int, bool)): return True
    if depth > 6: return False
    if isinstance(v, dict): return all(_convertible(k, depth + 1) and _convertible(x, depth + 1) for k, x in v.items())
    if isinstance(v, (list, tuple, set, frozenset)): return all(_convertible(x, depth + 1) for x in v)
    return False

def conv(v):
    """python data -> interpreter values"""
    if isinstance(v, dict): return PDict([(conv(k), conv(x)) for k, x in v.items()])
    if isinstance(v, list): return [conv(x) for x in v]
    if isinstance(v, tuple): return tuple(conv(x) for x in v)
    if isinstance(v, (set, frozenset)): return PSet([conv(x) for x in sorted(v, key=repr)])
    if v is None or isinstance(v, (str, int, bool)): return v
    return Opaque(type(v).__name__)

def sha(path):
    return hashlib.sha256(open(path, 'rb').read()).hexdigest()

# ------------------------------------------------------------------ `re` model
SEPS = '_./\n'
def derive_excl(st, var, zre):
    for c in SEPS:
        if re_excludes(zre, c): st.excl.setdefault(var.name, set()).add(c); st.derived.setdefault(var.name, set()).add(c)

def walk(st, segn, items):
    """constructive decomposition of a structured segment along the chunk items (unique by the per-chunk lemma)"""
    items = list(items)
    def rec(i, atoms):
        atoms = [a for a in atoms if not (isinstance(a, str) and a == '')]
        if i == len(items): return [] if not atoms else None
        it0 = items[i]
        if not atoms:
            if it0[0] != 'lit' and lit_matches(it0[2], ''):
                r = rec(i + 1, atoms)
                return None if r is None else [(it0, SStr([]))] + r
            return None
        a = atoms[0]
        if it0[0] == 'lit':
            if isinstance(a, str) and a.startswith(it0[1]): return rec(i + 1, [a[len(it0[1]):]] + atoms[1:])
            return None
        if isinstance(a, Var):
            r = rec(i + 1, atoms[1:])
            return None if r is None else [(it0, SStr([a]))] + r
        for n in range(0, len(a) + 1):       # n == 0: the group matches the empty string (an empty field value)
            if n == 0 and not lit_matches(it0[2], ''): continue
            if lit_matches(it0[2], a[:n]):
                r = rec(i + 1, [a[n:]] + atoms[1:])
                if r is not None: return [(it0, SStr([a[:n]]))] + r
        return None
    return rec(0, list(segn.atoms))

def align(st, segn, items):
    """peel a structured segment against chunk items from the left and from the right; returns [(item, piece)] or None"""
    atoms = list(segn.atoms); items = list(items); left = []; right = []
    def atom_free(a, c): return (isinstance(a, str) and c not in a) or (isinstance(a, Var) and c in st.excl.get(a.name, ()))
    while items:
        it0 = items[0]
        if it0[0] == 'lit':
            L = it0[1]
            if atoms and isinstance(atoms[0], str) and atoms[0].startswith(L):
                atoms[0] = atoms[0][len(L):]
                if not atoms[0]: atoms.pop(0)
                items.pop(0); continue
            break
        if len(items) == 1: break
        nxt = items[1]
        if nxt[0] != 'lit': break
        c = nxt[1][0]
        if not re_excludes(it0[2], c): break
        piece = []
        while atoms and atom_free(atoms[0], c): piece.append(atoms.pop(0))
        if not atoms: return None
        a = atoms[0]
        if isinstance(a, str) and c in a:
            i = a.index(c); piece.append(a[:i]); atoms[0] = a[i:]
            left.append((it0, SStr(piece))); items.pop(0); continue
        atoms = piece + atoms; break
    while items:
        itN = items[-1]
        if itN[0] == 'lit':
            L = itN[1]
            if atoms and isinstance(atoms[-1], str) and atoms[-1].endswith(L):
                atoms[-1] = atoms[-1][:-len(L)]
                if not atoms[-1]: atoms.pop()
                items.pop(); continue
            break
        if len(items) == 1: break
        prv = items[-2]
        if prv[0] == 'lit': c = prv[1][-1]
        else: break
        if not re_excludes(itN[2], c): break
        piece = []
        while atoms and atom_free(atoms[-1], c): piece.insert(0, atoms.pop())
        if not atoms: return None
        a = atoms[-1]
        if isinstance(a, str) and c in a:
            i = a.rindex(c); piece.insert(0, a[i + 1:]); atoms[-1] = a[:i + 1]
            right.insert(0, (itN, SStr(piece))); items.pop(); continue
        atoms = atoms + piece; break
    if not items and not atoms: return left + right
    if len(items) == 1 and items[0][0] != 'lit': return left + [(items[0], SStr(atoms))] + right
    return None

class RegexModel:
    """compiled pattern ^chunk/.../chunk$ : search() with CPython's semantics.
    `$` matches at the end and before a final newline; with a greedy last group the group keeps the newline when its
    pattern accepts it (backtracking order: the longest alternative is tried first)."""
    def __init__(self, pattern): self.pattern = pattern
    @property
    def T(self): return template_re(self.pattern)
    def pyvc_getattr(self, it, name):
        if name == 'search': return PBuiltin(lambda it, s, *a: self.search(it, s), 're.search')
        if name == 'match': return PBuiltin(lambda it, s, *a: self.search(it, s), 're.match')   # pattern is ^-anchored
        if name == 'pattern': return self.pattern
        raise OutsideSubset('regex attr ' + name)
    def _last_single(self, it, i, name, zre, src, seg, segn, groups):
        st = it.st
        a = st.in_re(seg, zre, src); az = zb(a)
        if segn.atoms and isinstance(segn.atoms[-1], str):
            if segn.atoms[-1].endswith('\n'):
                body = SStr(segn.atoms[:-1] + (segn.atoms[-1][:-1],)); b = st.in_re(body, zre, src)
                optB = [z3.Not(az), zb(b)]
            else: body = None; optB = [z3.BoolVal(False)]
            k = st.choose([('m', [az]), ('m-nl', optB), ('no', [z3.Not(z3.Or(az, z3.And(*optB)))])], f're#{i}$')
            if k == 2: return False
            groups.append((name, seg if k == 0 else body)); return True
        if not segn.atoms:
            if not st.branch(a, f're#{i}$'): return False
            groups.append((name, seg)); return True
        lastv = segn.atoms[-1]
        if isinstance(lastv, Var) and '\n' in st.excl.get(lastv.name, ()):
            if not st.branch(a, f're#{i}$'): return False
            groups.append((name, seg)); return True
        # structured segment ending in a variable that may end with "\n": decide that first, structurally
        x = lastv
        endsnl = SBool(z3.SuffixOf(z3.StringVal('\n'), x.z))
        if st.branch(endsnl, f're#{i}$nl'):
            st.pc.pop()
            u = Var(x.name + '.u'); st.excl[u.name] = set(st.excl.get(x.name, ())); st.do_subst(x, (u, '\n'))
        else:
            st.pc.pop()
            # x does not end with \n : record as a regex fact on the leaf
            from .sstr import charset, SC
            anyc = z3.Star(charset([(SC.NEGATE, None)])); nonl = charset([(SC.NEGATE, None), (SC.LITERAL, 10)])
            st.assume(z3.Or(x.z == z3.StringVal(''), z3.InRe(x.z, z3.Concat(anyc, nonl))))
            if not st.branch(a, f're#{i}$'): return False
            groups.append((name, seg)); return True
        return self._last_single(it, i, name, zre, src, seg, st.norm(seg), groups)
    def search(self, it, s):
        st = it.st; T = self.T
        if isinstance(s, str): s = SStr([s])
        if not isinstance(s, SStr): it.raise_('TypeError', 'expected string or bytes-like object')
        segs, open_tail = st.split(s, '/', -1, 'segments', max_open=T.nseg + 1)
        if open_tail or len(segs) not in T.variants: return None
        groups = []; n = len(segs)
        for i, (ch, seg) in enumerate(zip(T.variants[len(segs)], segs)):
            last = i == n - 1
            segn = st.norm(seg)
            if all(x[0] == 'lit' for x in ch.items):
                lit = ''.join(x[1] for x in ch.items)
                e = st.eq(segn, lit)
                if last:
                    e2 = st.eq(segn, lit + '\n')
                    k = st.choose([('lit', [zb(e)]), ('lit-nl', [zb(e2)]), ('no', [z3.Not(z3.Or(zb(e), zb(e2)))])], f're#{i}')
                    if k == 2: return None
                    if len(segn.atoms) == 1 and isinstance(segn.atoms[0], Var): st.pc.pop(); st.subst_lit(segn, lit if k == 0 else lit + '\n')
                    continue
                if e is False: return None
                if e is not True:
                    if not st.branch(e, f're#{i}lit'): return None
                    if len(segn.atoms) == 1 and isinstance(segn.atoms[0], Var): st.pc.pop(); st.subst_lit(segn, lit)
                continue
            if len(ch.items) == 1:
                _, name, zre, src = ch.items[0]
                if not last:
                    if not st.branch(st.in_re(seg, zre, src), f're#{i}'): return None
                    if name: groups.append((name, seg))
                    continue
                if not self._last_single(it, i, name, zre, src, seg, segn, groups): return None
                if not name: groups.pop()
                continue
            # multi-item chunk (file names)
            if len(segn.atoms) > 1:
                aligned = walk(st, segn, ch.items) or align(st, segn, ch.items)
                if aligned is not None and (not last or aligned[-1][0][0] == 'lit' or re_excludes(aligned[-1][0][2], '\n')
                                            or _cannot_end_nl(st, segn)):
                    conds = [st.in_re(piece, item[2], item[3]) for item, piece in aligned]
                    if any(c is False for c in conds): return None
                    zs = [c.z for c in conds if c is not True]
                    if zs and not st.branch(SBool(z3.And(*zs) if len(zs) > 1 else zs[0]), f're#{i}aligned'): return None
                    for item, piece in aligned:
                        if item[0] == 'grp': groups.append((item[1], simp(piece)))
                    continue
            whole = _concat([z3.Re(z3.StringVal(x[1])) if x[0] == 'lit' else x[2] for x in ch.items])
            if last and not _cannot_end_nl(st, segn) and isinstance(segn.atoms[-1], Var):
                # decide structurally first whether the segment ends with "\n" (avoids substr/len in the formulas)
                x = segn.atoms[-1]
                if st.branch(SBool(z3.SuffixOf(z3.StringVal('\n'), x.z)), f're#{i}$nl'):
                    st.pc.pop()
                    u = Var(x.name + '.u'); st.excl[u.name] = set(st.excl.get(x.name, ())); st.do_subst(x, (u, '\n'))
                else:
                    st.pc.pop()
                    from .sstr import charset, SC
                    anyc = z3.Star(charset([(SC.NEGATE, None)])); nonl = charset([(SC.NEGATE, None), (SC.LITERAL, 10)])
                    st.assume(z3.Or(x.z == z3.StringVal(''), z3.InRe(x.z, z3.Concat(anyc, nonl))))
                    st.excl.setdefault(x.name, set())
                    st.no_nl_end = getattr(st, 'no_nl_end', set()) | {x.name}
                segn = st.norm(seg)
            zseg = segn.z()
            ends_nl = bool(segn.atoms) and isinstance(segn.atoms[-1], str) and segn.atoms[-1].endswith('\n')
            if last and ends_nl:
                body = SStr(segn.atoms[:-1] + (segn.atoms[-1][:-1],))
                a = z3.InRe(zseg, whole); bz = z3.InRe(body.z(), whole) if body.atoms else z3.BoolVal(lit_matches(whole, ''))
                k = st.choose([('m', [a]), ('m-nl', [z3.Not(a), bz]), ('no', [z3.Not(z3.Or(a, bz))])], f're#{i}$')
                if k == 2: return None
                if k == 1: segn = body; st.pc.pop()      # membership of the body is implied by the group constraints below
                else: st.pc.pop()
            else:
                if not st.branch(SBool(z3.InRe(zseg, whole)), f're#{i}'): return None
                st.pc.pop()     # implied by the group constraints below (leaf-variable discipline)
            aligned = align(st, segn, ch.items) if len(segn.atoms) > 1 else None
            if aligned is not None:
                for item, piece in aligned:
                    c = st.in_re(piece, item[2], item[3])
                    if c is False: raise OutsideSubset('aligned piece cannot match its group (contradiction with chunk membership)')
                    if c is not True: st.assume(c.z)
                    if item[0] == 'grp': groups.append((item[1], simp(piece)))
                continue
            # decomposition into fresh group variables.  NOTE: which decomposition the backtracking engine returns when
            # several exist is fixed by the per-chunk uniqueness lemma (contracts/lemmas.py); without it the groups are *a* decomposition.
            atoms = []
            for x in ch.items:
                if x[0] == 'lit': atoms.append(x[1])
                else:
                    g = st.fresh('g_' + (x[1] or 'anon'), excl=set('/'))
                    st.assume(z3.InRe(g.z, x[2])); derive_excl(st, g, x[2]); atoms.append(g)
                    if x[0] == 'grp': groups.append((x[1], SStr([g])))
            if len(segn.atoms) == 1 and isinstance(segn.atoms[0], Var): st.do_subst(segn.atoms[0], tuple(atoms))
            else: st.assume(segn.z() == SStr(atoms).z())
            it.st.notes.append(('needs-chunk-uniqueness', self.pattern, i))
        return MatchModel(groups)

def _cannot_end_nl(st, segn):
    if not segn.atoms: return True
    a = segn.atoms[-1]
    if isinstance(a, str): return not a.endswith('\n')
    return '\n' in st.excl.get(a.name, ()) or a.name in getattr(st, 'no_nl_end', ())

class MatchModel:
    def __init__(self, groups): self.groups = groups
    def pyvc_getattr(self, it, name):
        if name == 'groupdict': return PBuiltin(lambda it: PDict([(k, simp(v)) for k, v in self.groups]), 'groupdict')
        if name == 'group':
            def group(it, k=0):
                for kk, v in self.groups:
                    if kk == k: return simp(v)
                raise OutsideSubset('match.group')
            return PBuiltin(group, 'group')
        raise OutsideSubset('match attr ' + name)
    def pyvc_truthy(self, it): return True

# ------------------------------------------------------------------ pathlib model
class PathModel:
    """pathlib.PurePosixPath(str): str() is the normalised string -- empty components ("//", trailing "/") and "." components are dropped;
    a leading "/" is kept (exactly two leading slashes are kept as "//" by POSIX rules: outside the model -> OutsideSubset)."""
    def __init__(self, s): self.s = s
    def pyvc_str(self, it): return self.s
    def pyvc_eq(self, it, other):
        if isinstance(other, PathModel): return it.py_eq(self.s, other.s)
        return False
    def pyvc_getattr(self, it, name):
        from . import fsmodel                      # pure-path attributes (suffix, stem, name, parent, with_name, ...) need no file system
        return fsmodel.p_getattr(self, it, name)
def normalise_path(it, a):
    st = it.st
    la = V._lit(it, a)
    if la is not None:
        import pathlib; return str(pathlib.PurePosixPath(la))
    sn = st.norm(S(a))
    if len(sn.atoms) == 1 and isinstance(sn.atoms[0], Var) and '/' not in st.excl.get(sn.atoms[0].name, ()):
        return _normalise_raw(it, sn.atoms[0])
    segs, open_tail = st.split(a, '/', -1, 'path-components', max_open=40)
    if open_tail: raise OutsideSubset('Path() of a string with too many components')
    segs = [simp(x) for x in segs]
    absolute = False
    if len(segs) > 1 and not it.is_true(segs[0], 'path:absolute'):
        absolute = True; segs = segs[1:]
        if segs and not it.is_true(segs[0], 'path:double-slash'): raise OutsideSubset('Path() of a string starting with "//"')
    keep = []
    for x in segs:
        if not it.is_true(x, 'path:empty-component'): continue
        if it.known_eq(x, '.'): continue
        keep.append(x)
    out = it.concat(V.interleave('/', keep))
    if absolute: out = it.concat(['/', out])
    elif not keep: out = '.'
    return out
_NF = []
def normal_form_re():
    """regex of the strings that pathlib leaves unchanged: [/] comp (/ comp)*  or '/'  -- comp: non-empty, '/'-free, not '.'"""
    if not _NF:
        from .sstr import charset, SC
        notslash = charset([(SC.NEGATE, None), (SC.LITERAL, ord('/'))])
        comp = z3.Intersect(z3.Plus(notslash), z3.Complement(z3.Re(z3.StringVal('.'))))
        rel = z3.Concat(comp, z3.Star(z3.Concat(z3.Re(z3.StringVal('/')), comp)))
        _NF.append(z3.Union(z3.Re(z3.StringVal('/')), rel, z3.Concat(z3.Re(z3.StringVal('/')), rel)))
    return _NF[0]
def _normalise_raw(it, v):
    """Path() of an unrefined variable: exact case split on the simplest ways a string can be non-normalised (one trailing '/', one '//',
    one '/./'); any other non-normalised shape is outside the model on that path"""
    st = it.st; NF = normal_form_re(); ex = set(st.excl.get(v.name, ()))
    n = Var(v.name + '.n'); a = Var(v.name + '.pa'); b = Var(v.name + '.pb')
    def cat(*xs): return SStr(xs).z()
    opts = [('normal', [z3.InRe(v.z, NF)]),
            ('trailing-slash', [v.z == cat(n, '/'), z3.InRe(n.z, NF), n.z != z3.StringVal('/')]),
            ('double-slash', [v.z == cat(a, '//', b), z3.InRe(cat(a, '/', b), NF), a.z != z3.StringVal('')]),
            ('dot-component', [v.z == cat(a, '/./', b), z3.InRe(cat(a, '/', b), NF), a.z != z3.StringVal('')])]
    other = z3.Not(z3.Or(z3.InRe(v.z, NF), z3.InRe(v.z, z3.Concat(NF, z3.Re(z3.StringVal('/')))),
                         z3.Contains(v.z, z3.StringVal('//')), z3.Contains(v.z, z3.StringVal('/./'))))
    opts.append(('other', [other]))
    k = st.choose(opts, 'Path(raw)')
    for x in (n, a, b): st.excl[x.name] = set(ex)
    if k == 0: return SStr([v])
    if k == 1:
        del st.pc[-3]; st.do_subst(v, (n, '/')); return SStr([n])
    if k in (2, 3):
        sep = '//' if k == 2 else '/./'
        del st.pc[-3]; st.do_subst(v, (a, sep, b)); return it.concat([SStr([a]), '/', SStr([b])])
    raise OutsideSubset('Path() of a non-normalised string of another shape (several defects, leading "//" or "./")')
class PathClass:
    def pyvc_call(self, it, args, kwargs):
        if len(args) != 1: raise OutsideSubset('Path() with several parts')
        a = args[0]
        if isinstance(a, PathModel): return PathModel(a.s)
        if not isinstance(a, (str, SStr)): it.raise_('TypeError', 'expected str, bytes or os.PathLike object')
        return PathModel(normalise_path(it, a))
    def pyvc_instancecheck(self, it, v): return isinstance(v, PathModel)

# ------------------------------------------------------------------ functools.lru_cache (resolva): a real memo table
class MemoWrapper:
    """functools.lru_cache(): memo keyed on the arguments with CPython's key rule (same object, or equal hash and ==: Interp.key_eq); returns the
    *same object* on a hit -- this is what makes sharing of cached mutable results visible (C13/C14)."""
    def __init__(self, fn): self.fn = fn; self.table = []
    def pyvc_call(self, it, args, kwargs):
        for k, kk, v in self.table:
            if len(k) == len(args) and list(kk) == list(kwargs) and all(it.key_eq(a, b) for a, b in zip(k, args)) \
               and all(it.key_eq(kwargs[n], kk[n]) for n in kk): return v
        v = it.call(self.fn, args, kwargs)
        self.table.append((list(args), dict(kwargs), v))
        return v
    def pyvc_getattr(self, it, name):
        if name == 'cache_clear': return PBuiltin(lambda it: self.table.clear(), 'cache_clear')
        return it.getattr(self.fn, name)
class MemoMethod:
    """descriptor behaviour of an lru_cache'd method: bound on attribute access"""
    pass

def _mod(name, **ns):
    m = PModule(name); m.ns.update(ns); return m
class LogObj:
    def pyvc_getattr(self, it, name):
        if name in ('DEBUG', 'INFO', 'WARNING', 'ERROR'): return 0
        return PBuiltin(lambda it, *a, **k: None, 'log.' + name)

def make_world(repo=None):
    snap = take_snapshot()
    w = World(repo or REPO)
    w.snap = snap
    sp = w.special
    def m_log(it): return _mod('spil.util.log', **{n: PBuiltin(lambda it, *a, **k: None, n) for n in ('debug', 'info', 'warning', 'warn', 'error', 'critical', 'setLevel', 'get_logger')}, DEBUG=10, INFO=20, WARN=30, ERROR=40)
    sp['spil.util.log'] = m_log
    def m_conf(it):
        m = PModule('spil.conf')
        for k, v in snap['conf'].items(): m.ns[k] = conv(v)
        # functions of the data configuration module (interpreted from its source on demand)
        for fn in ('get_data_json_path', 'get_getter_for', 'get_finder_for', 'get_writer_for'):
            m.ns[fn] = Lazy('spil_data_conf', fn)
        return m
    sp['spil.conf'] = m_conf
    def m_spil(it):
        m = PModule('spil')
        m.ns.update({'conf': Lazy('spil.conf', None), 'Sid': Lazy('spil.sid.sid', 'Sid'), 'SpilException': Lazy('spil.util.exception', 'SpilException'),
                     'FindInList': Lazy('spil.sid.read.finders.find_list', 'FindInList'), 'Finder': Lazy('spil.sid.read.finder', 'Finder'),
                     'FindInAll': Lazy('spil.sid.read.finders.find_all', 'FindInAll'), 'FindInPaths': Lazy('spil.sid.pathops.find_paths', 'FindInPaths'),
                     'FindInConstants': Lazy('spil.sid.read.finders.find_constants', 'FindInConstants'),
                     'GetFromAll': Lazy('spil.sid.read.getters.getter_all', 'GetFromAll'), 'Getter': Lazy('spil.sid.read.getter', 'Getter'),
                     'GetFromPaths': Lazy('spil.sid.pathops.getter_paths', 'GetFromPaths'), 'Writer': Lazy('spil.sid.write.writer', 'Writer'),
                     'WriteToAll': Lazy('spil.sid.write.write_all', 'WriteToAll'), 'WriteToPaths': Lazy('spil.sid.pathops.write_paths', 'WriteToPaths'),
                     'log': Lazy('spil.util.log', None), 'logging': Lazy('spil.util.log', None)})
        return m
    sp['spil'] = m_spil
    sp['importlib'] = lambda it: _mod('importlib', import_module=PBuiltin(lambda it, name: it.module(simp(it.st.norm(name)) if isinstance(name, SStr) else name), 'import_module'))
    def _wraps(it, f):
        def deco(it, g):
            if isinstance(g, PFunc):
                g.attrs['__wrapped__'] = f
                if isinstance(f, PFunc): g.attrs['__name__'] = f.name
            return g
        return PBuiltin(deco, 'wraps-deco')
    def _total_ordering(it, c):
        c.ns['__total_ordering__'] = True; return c
    def _lru_cache(it, *a, **k):
        if len(a) == 1 and not k and isinstance(a[0], (PFunc,)): return _memo(a[0])
        return PBuiltin(lambda it, g: _memo(g), 'lru-deco')
    def _memo(g):
        # an lru_cache'd *method*: the memo must see `self` as part of the key -> one wrapper per function object
        return MemoFunc(g)
    sp['functools'] = lambda it: _mod('functools', wraps=PBuiltin(_wraps, 'wraps'), total_ordering=PBuiltin(_total_ordering, 'total_ordering'),
                                      lru_cache=PBuiltin(_lru_cache, 'lru_cache'), cache=PBuiltin(lambda it, g: _memo(g), 'cache'),
                                      partial=PBuiltin(lambda it, f, *a, **k: PBuiltin(lambda it, *b, **kk: it.call(f, list(a) + list(b), {**k, **kk}), 'partial'), 'partial'))
    sp['pathlib'] = lambda it: _mod('pathlib', Path=PathClass(), PurePath=PathClass())
    def m_ospath(it):
        # posixpath on strings: basename = text after the last '/', dirname = text before it (without trailing slashes unless it is the root), splitext as PurePath.suffix
        from . import fsmodel
        def basename(it_, p): return simp(it_.st.rsplit1(S(it_.to_str(p)), '/', 'os.path.basename')[-1])
        def dirname(it_, p):
            parts = it_.st.rsplit1(S(it_.to_str(p)), '/', 'os.path.dirname')
            if len(parts) == 1: return ''
            head = simp(parts[0])
            if isinstance(head, str): return head.rstrip('/') or ('/' if True else '')
            raise OutsideSubset('os.path.dirname of a symbolic head')
        def join(it_, *parts):
            out = None
            for q in parts:
                q = it_.to_str(q)
                lq = V._lit(it_, q)
                if lq is None:
                    a0 = it_.st.norm(S(q)).atoms
                    if not (a0 and isinstance(a0[0], str) and a0[0]): raise OutsideSubset('os.path.join of a part whose first character is symbolic')
                    absolute = a0[0].startswith('/')
                else: absolute = lq.startswith('/')
                if out is None or absolute: out = q
                else:
                    lo = V._lit(it_, out)
                    tail = it_.st.norm(S(out)).atoms[-1] if lo is None else lo
                    if not isinstance(tail, str): raise OutsideSubset('os.path.join after a part whose last character is symbolic')
                    out = it_.concat([out, q]) if (tail.endswith('/') or (lo == '')) else it_.concat([out, '/', q])
            return simp(out) if out is not None else ''
        def splitext(it_, p):
            ps = it_.to_str(p); nm = fsmodel.name_of(it_, ps); suf, stem = fsmodel.suffix_of(it_, nm)
            if isinstance(suf, str) and suf == '': return (ps, '')
            par = it_.st.rsplit1(S(ps), '/', 'os.path.splitext')
            return (simp(it_.concat([par[0], '/', stem])) if len(par) == 2 else stem, suf)
        def fs_q(kind):
            def q(it_, p):
                fs = getattr(it_, 'fs', None)
                if fs is None: raise OutsideSubset('os.path.' + kind + ' without a ghost file system')
                k = fs.state(it_.to_str(p))[1]
                return {'exists': k != 'absent', 'isfile': k == 'file', 'isdir': k == 'dir'}[kind]
            return PBuiltin(q, 'os.path.' + kind)
        return _mod('os.path', basename=PBuiltin(basename, 'basename'), dirname=PBuiltin(dirname, 'dirname'), join=PBuiltin(join, 'join'), splitext=PBuiltin(splitext, 'splitext'),
                    exists=fs_q('exists'), isfile=fs_q('isfile'), isdir=fs_q('isdir'), sep='/')
    sp['os.path'] = m_ospath
    sp['os'] = lambda it: _mod('os', sep='/', path=Lazy('os.path', None), PathLike=Opaque('PathLike'), environ=PDict())
    class FormatterModel:
        def pyvc_call(self, it, args, kwargs): return self
        def pyvc_getattr(self, it, name):
            if name == 'parse':
                def parse(it_, t):
                    import string as _s
                    lt = V._lit(it_, t)
                    if lt is None: raise OutsideSubset('Formatter().parse on a symbolic template')
                    return [tuple(x) for x in _s.Formatter().parse(lt)]
                return PBuiltin(parse, 'Formatter.parse')
            raise OutsideSubset('Formatter.' + name)
    sp['string'] = lambda it: _mod('string', Formatter=FormatterModel())
    sp['sys'] = lambda it: _mod('sys', path=[], version_info=(3, 12, 1))
    sp['re'] = lambda it: _mod('re', compile=PBuiltin(lambda it, *a, **k: Opaque('re.compile'), 're.compile'), escape=PBuiltin(_re_escape, 're.escape'))
    sp['collections'] = lambda it: _mod('collections', OrderedDict=PBuiltin(lambda it, *a, **k: V._b_dict(it, *a, **k), 'OrderedDict'), defaultdict=PBuiltin(lambda it, factory=None, *a, **k: V.PDefaultDict(factory, V._b_dict(it, *a, **k).items), 'defaultdict'))
    sp['pprint'] = lambda it: _mod('pprint', pformat=PBuiltin(lambda it, *a, **k: Opaque('pformat')), pprint=PBuiltin(lambda it, *a, **k: None))
    sp['inspect'] = lambda it: _mod('inspect')
    sp['json'] = lambda it: _mod('json')
    sp['shutil'] = lambda it: _mod('shutil')
    sp['glob'] = lambda it: _mod('glob')
    def _groupby(it, iterable, key=None):
        """itertools.groupby: maximal runs of consecutive elements with equal keys (A-groupby: modelled)"""
        out = []
        for x in it.iterate(iterable):
            k = it.call(key, [x], {}) if key is not None else x
            if out and it.known_eq(out[-1][0], k): out[-1][1].append(x)
            else: out.append((k, [x]))
        return [(k, list(g)) for k, g in out]
    sp['itertools'] = lambda it: _mod('itertools', groupby=PBuiltin(_groupby, 'groupby'))
    sp['logging'] = lambda it: _mod('logging', getLogger=PBuiltin(lambda it, *a: LogObj()))
    sp['typing'] = lambda it: TypingModule('typing')
    sp['typing_extensions'] = lambda it: TypingModule('typing_extensions')
    sp['abc'] = lambda it: _mod('abc', ABC=V.OBJECT, abstractmethod=PBuiltin(lambda it, f: f))
    sp['resolva.utils'] = lambda it: _mod('resolva.utils', log=LogObj(), ResolvaException=PClass('ResolvaException', [B_EXC['Exception']]))
    install_urllib(sp)
    def m_pathconfig(it):
        objs = {}
        for c, d in snap['pathconf'].items():
            o = PObj(PClass('PathConfig')); o.attrs.update({k: conv(v) for k, v in d.items()})
            objs[c] = o
        def get_path_config(it, name=None):
            if not it.is_true(name, 'pathconfig name'): name = snap['conf']['default_path_config']
            for c in objs:
                if it.known_eq(name, c): return objs[c]
            it.raise_('Exception', 'unknown path config')     # real code: import of a configuration module fails
        return _mod('spil.sid.pathops.pathconfig', get_path_config=PBuiltin(get_path_config, 'get_path_config'), PathConfig=Opaque('PathConfig'))
    sp['spil.sid.pathops.pathconfig'] = m_pathconfig
    return w

class TypingModule(PModule):
    def __init__(self, name): super().__init__(name)
class _AnyAttr:
    pass

def _re_escape(it, s):
    if isinstance(s, str):
        import re; return re.escape(s)
    raise OutsideSubset('re.escape symbolic')

class MemoFunc:
    """functools.lru_cache applied to a function/method (see MemoWrapper)"""
    def __init__(self, fn): self.fn = fn; self.w = MemoWrapper(fn)
    def pyvc_call(self, it, args, kwargs): return self.w.pyvc_call(it, args, kwargs)
    def pyvc_getattr(self, it, name): return self.w.pyvc_getattr(it, name)
    def bind_to(self, obj): return BoundMemo(self, obj)
class BoundMemo:
    def __init__(self, mf, obj): self.mf = mf; self.obj = obj
    def pyvc_call(self, it, args, kwargs): return self.mf.pyvc_call(it, [self.obj] + list(args), kwargs)

# make instance attribute lookup bind MemoFunc objects found in a class namespace
_orig_getattr = Interp.getattr
def _getattr(self, o, name):
    o = self.resolve(o)
    if isinstance(o, PObj) and name not in o.attrs:
        f = o.cls.lookup(name)
        if isinstance(f, MemoFunc): return f.bind_to(o)
    return _orig_getattr(self, o, name)
Interp.getattr = _getattr

# ------------------------------------------------------------------ urllib.parse on the stated domain
URL_META = set('%+#;')
def install_urllib(sp):
    def _check_domain(it, s, what):
        """A-urllib: the model is exact for strings without '%', '+', '#', ';' (no percent/plus decoding, no fragment)"""
        sn = it.st.norm(S(s))
        for a in sn.atoms:
            if isinstance(a, str):
                if URL_META & set(a): raise OutsideSubset(f'urllib model: {what} contains a URL metacharacter')
            elif not URL_META <= it.st.excl.get(a.name, set()):
                raise OutsideSubset(f'urllib model: {what} may contain a URL metacharacter (requires-domain)')
    def parse_qsl(it, qs, keep_blank_values=False, **kw):
        _check_domain(it, qs, 'query')
        out = []
        lq = V._lit(it, qs)
        pieces = V._s_split(it, qs, '&') if lq is None else lq.split('&')
        if isinstance(pieces, OpenList): raise OutsideSubset('too many & pieces')
        for p in pieces:
            if not it.is_true(p, 'qsl-empty-piece'): continue
            nv = V._s_split(it, p, '=', 1)
            if len(nv) != 2:
                if keep_blank_values: nv = [nv[0], '']
                else: continue
            if not keep_blank_values and not it.is_true(nv[1], 'qsl-blank-value'): continue
            out.append((nv[0], nv[1]))
        return out
    class SplitResult:
        def __init__(self, q): self.q = q
        def pyvc_getattr(self, it, name):
            if name == 'query': return self.q
            raise OutsideSubset('urlsplit attr ' + name)
    def urlsplit(it, s, *a, **k):
        _check_domain(it, s, 'url')
        sn = it.st.norm(S(s))
        # domain of the model: the url is "?" + query (this is how query_helper calls it)
        if sn.atoms and isinstance(sn.atoms[0], str) and sn.atoms[0].startswith('?'):
            q = SStr((sn.atoms[0][1:],) + sn.atoms[1:])
            return SplitResult(simp(q))
        raise OutsideSubset('urlsplit on a string that does not start with "?"')
    def quote(it, s, safe='/', encoding=None, errors=None):
        _check_domain(it, s, 'quoted value')
        # A-urllib: values restricted to characters that quote() leaves unchanged
        sn = it.st.norm(S(s))
        for a in sn.atoms:
            if isinstance(a, str):
                import urllib.parse as up
                if up.quote(a, safe=safe if isinstance(safe, str) else '/') != a: raise OutsideSubset('quote() would change the literal ' + repr(a))
            elif not getattr(it, 'urlsafe_vars', None) or a.name not in it.urlsafe_vars:
                raise OutsideSubset('quote() of a variable not declared url-safe')
        return s
    def urlencode(it, d, doseq=False, safe='', encoding=None, errors=None, quote_via=None):
        parts = []
        items = d.items if isinstance(d, PDict) else it.iterate(d)
        for k, v in items:
            q = quote_via if quote_via is not None else PBuiltin(quote, 'quote')
            kk = it.call(q, [it.to_str(k), safe, encoding, errors], {}); vv = it.call(q, [it.to_str(v), safe, encoding, errors], {})
            parts.append(it.concat([kk, '=', vv]))
        return V._s_join(it, '&', parts)
    sp['urllib.parse'] = lambda it: _mod('urllib.parse', parse_qsl=PBuiltin(parse_qsl, 'parse_qsl'), urlsplit=PBuiltin(urlsplit, 'urlsplit'),
                                         urlencode=PBuiltin(urlencode, 'urlencode'), quote=PBuiltin(quote, 'quote'))
    sp['urllib'] = lambda it: _mod('urllib', parse=Lazy('urllib.parse', None))

# ------------------------------------------------------------------ resolva: real source, instances from the snapshot
def install_resolva(it):
    snap = it.world.snap
    rdir = snap['resolva_dir']
    mods = {}
    for name, rel in (('resolva.template', 'template.py'), ('resolva.resolver', 'resolver.py')):
        m = PModule(name); it.modules[name] = m; m.ns['__name__'] = name
        tree = it.world.parse(os.path.join(rdir, rel))
        it.exec_block(tree.body, [m.ns], module=m, toplevel=True)
        mods[name] = m
    pkg = PModule('resolva'); pkg.ns['Resolver'] = mods['resolva.resolver'].ns['Resolver']; pkg.ns['template'] = mods['resolva.template']
    pkg.ns['utils'] = it.module('resolva.utils'); pkg.ns['resolver'] = mods['resolva.resolver']
    it.modules['resolva'] = pkg
    R = mods['resolva.resolver'].ns['Resolver']
    cache = mods['resolva.resolver'].ns['instance_cache']
    for rid, d in snap['resolvers'].items():
        o = PObj(R)
        o.attrs.update({'_id': rid, '_patterns': conv(d['patterns']), '_regexes': PDict([(k, RegexModel(p)) for k, p in d['regex'].items()]),
                        '_formats': conv(d['formats']), '_keys': PDict([(k, PSet(v)) for k, v in d['keys'].items()]),
                        'check_duplicate_placeholders': d['check_dup']})
        it.dict_set(cache, rid, o)

def new_interp(st, world):
    it = Interp(st, world)
    conf_dir = world.snap['conf'].get('default_sid_conf_path')
    if conf_dir and conf_dir not in world.search_paths: world.search_paths.append(conf_dir)
    install_resolva(it)
    return it
def install_fs(it):
    from . import fsmodel
    return fsmodel.install(it, PathModel, None)
