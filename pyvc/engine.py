"""
pyvc.engine -- path exploration (16-process work queue), obligation bookkeeping, CPython cross-check, replay files,
known findings, evidence.  Exit codes: 0 all discharged / 1 refuted obligation (VIOLATION) / 2 undecided / 3 checker fault.
"""
from __future__ import annotations
import os, sys, json, time, traceback, hashlib, importlib, multiprocessing as mp, random
from concurrent.futures import ProcessPoolExecutor, wait, FIRST_COMPLETED
from . import sstr
import z3
from .sstr import PathState, Infeasible, OutsideSubset, Undecided, SStr, Var, simp
from . import interp as V
from . import world as W

VERIF = os.path.dirname(os.path.dirname(os.path.abspath(__file__)))
NPROC = int(os.environ.get('PYVC_NPROC', '16'))

# ------------------------------------------------------------------ concretisation
def concretize(model, v, st):
    if v is None or isinstance(v, (bool, int, str)): return v
    if isinstance(v, SStr): return model.sstr(st.norm(v))
    if isinstance(v, V.PDict): return {concretize(model, k, st): concretize(model, x, st) for k, x in v.items}
    if isinstance(v, dict): return {k: concretize(model, x, st) for k, x in v.items()}
    if isinstance(v, list): return [concretize(model, x, st) for x in v]
    if isinstance(v, tuple): return tuple(concretize(model, x, st) for x in v)
    if isinstance(v, sstr.SInt): return model.expr(st.resolve_expr(v.z)).as_long()
    if isinstance(v, sstr.SBool): return bool(z3.is_true(model.expr(st.resolve_expr(v.z))))
    return repr(v)

# ------------------------------------------------------------------ worker
_H = {}
_WORLD = None
def _harness(name):
    if name not in _H: _H[name] = importlib.import_module('contracts.' + name)
    return _H[name]
def _world():
    global _WORLD
    if _WORLD is None: _WORLD = W.make_world()
    return _WORLD

def run_task(task):
    hname, ci, case, prefix, opts = task
    h = _harness(hname)
    st = PathState(prefix); t0 = time.time()
    res = {'case': ci, 'prefix': prefix, 'outcome': None, 'pending': [], 'obligations': [], 'xcheck': None, 'note': None}
    s0 = dict(sstr.STATS)
    try:
        it = W.new_interp(st, _world())
        out = h.run(it, st, case)
        res['outcome'] = out if isinstance(out, str) else 'ok'
    except Infeasible:
        res['outcome'] = None
    except OutsideSubset as e:
        res['outcome'] = 'outside'; res['note'] = str(e)[:300]
    except Undecided as e:
        res['outcome'] = 'undecided'; res['note'] = str(e)[:300]
    except V.Raised as e:
        res['outcome'] = 'harness-raise'; res['note'] = f'uncaught {V.exc_name(e)} {e.exc.attrs.get("args")!r}'[:300]
    except RecursionError:
        res['outcome'] = 'outside'; res['note'] = 'python recursion limit in the interpreter'
    except Exception as e:
        res['outcome'] = 'crash'; res['note'] = traceback.format_exc()[-1500:]
    res['pending'] = st.pending
    res['notes'] = [list(map(str, n)) for n in st.notes][:5]
    # obligations: make models picklable (concrete inputs)
    obs = []
    for ob in st.obligations:
        o = {k: v for k, v in ob.items() if k != 'model'}
        if ob['status'] == 'refuted':
            try: o['inputs'] = {k: concretize(ob['model'], v, st) for k, v in st.inputs.items()}
            except Exception as e: o['inputs'] = None; o['model_error'] = repr(e)[:200]
        obs.append(o)
    res['obligations'] = obs
    # CPython cross-check of this path (one model of the path condition)
    if res['outcome'] == 'ok' and opts.get('xcheck') and hasattr(h, 'crosscheck'):
        try:
            m = st.model(budget_s=4)
            conc = {k: concretize(m, v, st) for k, v in st.inputs.items()}
            exp = {k: concretize(m, v, st) for k, v in getattr(st, 'observed', {}).items()}
            res['xcheck'] = h.crosscheck(case, conc, exp)
            if res['xcheck'] and res['xcheck'].get('status') == 'diverged': res['xcheck']['prefix'] = prefix; res['xcheck']['case'] = repr(case)[:200]
        except Undecided as e: res['xcheck'] = {'status': 'skipped', 'why': str(e)[:100]}
        except Exception as e: res['xcheck'] = {'status': 'error', 'why': traceback.format_exc()[-800:]}
    s1 = sstr.STATS
    res['stats'] = {k: s1[k] - s0.get(k, 0) for k in s1}
    res['t'] = time.time() - t0
    return res

def _init_worker():
    import warnings; warnings.simplefilter('ignore')
    sys.setrecursionlimit(20000)

# ------------------------------------------------------------------ driver
def explore(hname, cases, opts, max_paths=200000, deadline=None, stop_on=None, soft_deadline=False):
    """work queue over (case, decision prefix)"""
    results = []
    ctx = mp.get_context('fork')
    with ProcessPoolExecutor(NPROC, mp_context=ctx, initializer=_init_worker) as pool:
        futs = set()
        for ci, c in enumerate(cases): futs.add(pool.submit(run_task, (hname, ci, c, [], opts)))
        n = 0; nviol = 0; stopping = False
        while futs:
            done, futs = wait(futs, return_when=FIRST_COMPLETED)
            for f in done:
                r = f.result()
                for p in ([] if stopping else r['pending']):
                    futs.add(pool.submit(run_task, (hname, r['case'], cases[r['case']], p, opts)))
                r['pending'] = len(r['pending'])
                if r['outcome'] is not None: results.append(r)
                n += 1
                if stop_on and any(o['status'] == 'refuted' and not o.get('canary') and stop_on(o) for o in r['obligations']):
                    nviol += 1
            if nviol >= 3 and not stopping:
                # quick tier: a violation outside every recorded class was found on several paths -- no need to finish the exploration
                stopping = True
                for f in futs: f.cancel()
                futs = {f for f in futs if not f.cancelled()}
                results.append({'case': -1, 'outcome': 'stopped', 'note': 'exploration stopped after the first violations', 'obligations': [], 'xcheck': None, 'stats': {}, 't': 0})
            if n > max_paths or (deadline and time.time() > deadline):
                for f in futs: f.cancel()
                # quick tier: an unfinished exploration is undecided.  thorough tier: it explores as deep as its time budget allows and reports on what
                # it explored (the cases of the quick tier are queued first; the vacuity lock still requires every obligation name of the quick tier)
                results.append({'case': -1, 'outcome': 'budget' if soft_deadline else 'undecided', 'note': f'path/time budget exhausted after {n} paths', 'obligations': [], 'xcheck': None, 'stats': {}, 't': 0})
                break
    return results

# ------------------------------------------------------------------ known findings
def load_known():
    p = os.path.join(VERIF, 'known_findings.json')
    if not os.path.exists(p): return []
    return json.load(open(p)).get('findings', [])

# ------------------------------------------------------------------ check
def check(prop, tier='quick', seed=0, only=None):
    t0 = time.time()
    sys.path.insert(0, VERIF)
    hname = prop.lower()
    h = _harness(hname)
    snap = W.take_snapshot()
    opts = {'xcheck': True, 'tier': tier, 'seed': seed}
    os.environ['PYVC_TIER'] = tier
    cases = h.cases(tier)
    if tier != 'quick':
        q = {repr(c) for c in h.cases('quick')}
        cases = [c for c in cases if repr(c) in q] + [c for c in cases if repr(c) not in q]        # the quick tier's cases first
    if only: cases = [c for c in cases if only in repr(c)]
    budget = int(os.environ.get('PYVC_BUDGET_S') or getattr(h, 'BUDGET_S', {}).get(tier, 1500))
    known = [k for k in load_known() if k.get('property') == prop and k.get('kind') == 'known']
    def outside_known(o):
        if o.get('inputs') is None or not hasattr(h, 'in_known_class'): return True
        return not any(k.get('obligation') == o['name'] and h.in_known_class(k, o['inputs']) for k in known)
    results = explore(hname, cases, opts, deadline=time.time() + budget, stop_on=outside_known if tier == 'quick' else None, soft_deadline=(tier != 'quick'))
    # extra (non path-based) obligations: lemmas discharged once
    lemma_obs = []
    if hasattr(h, 'lemmas'):
        try: lemma_obs = h.lemmas(tier)
        except Undecided as e: lemma_obs = [{'name': f'{prop}:lemmas', 'status': 'undecided', 'why': str(e), 'props': [prop], 't': 0}]
    return summarize(prop, h, tier, seed, cases, results, lemma_obs, time.time() - t0)

def summarize(prop, h, tier, seed, cases, results, lemma_obs, wall):
    obs = []
    for r in results:
        for o in r['obligations']:
            o = dict(o); o['case'] = r['case']; o['prefix'] = r.get('prefix'); obs.append(o)
    for o in lemma_obs: obs.append(dict(o, case=-1, prefix=None))
    mine = [o for o in obs if not o.get('canary')]
    canaries = [o for o in obs if o.get('canary')]
    discharged = [o for o in mine if o['status'] == 'discharged']
    refuted = [o for o in mine if o['status'] == 'refuted']
    undecided = [o for o in mine if o['status'] == 'undecided']
    outside = [r for r in results if r['outcome'] in ('outside', 'undecided', 'harness-raise')]
    crashes = [r for r in results if r['outcome'] == 'crash']
    xc = [r['xcheck'] for r in results if r.get('xcheck')]
    xdiv = [x for x in xc if x.get('status') == 'diverged']
    xerr = [x for x in xc if x.get('status') == 'error']
    canary_bad = [o for o in canaries if o['status'] != 'refuted']
    by_backend = {}
    for o in discharged: by_backend[o.get('backend', '?')] = by_backend.get(o.get('backend', '?'), 0) + 1
    names = sorted({o['name'] for o in mine})
    stats = {}
    for r in results:
        for k, v in (r.get('stats') or {}).items(): stats[k] = stats.get(k, 0) + v
    # ---- replays for refuted obligations (grouped by obligation name; first witness of each group)
    known = [k for k in load_known() if k.get('property') == prop]
    groups = {}
    for o in refuted: groups.setdefault(o['name'], []).append(o)
    violations = []; known_lines = []
    os.makedirs(os.path.join(VERIF, 'replays'), exist_ok=True)
    for name, os_ in sorted(groups.items()):
        witnesses = []
        # a recorded finding covers this obligation only if EVERY refuted instance falls into its witness class
        kf = None
        for k in known:
            if k.get('kind') == 'known' and k.get('obligation') == name and hasattr(h, 'in_known_class') and all(o.get('inputs') is not None and h.in_known_class(k, o['inputs']) for o in os_):
                kf = k; break
        if kf is None and hasattr(h, 'in_known_class'):
            # put instances outside every recorded class first, so that the replay file shows the new violation
            ks = [k for k in known if k.get('kind') == 'known' and k.get('obligation') == name]
            os_ = sorted(os_, key=lambda o: 1 if (o.get('inputs') is not None and any(h.in_known_class(k, o['inputs']) for k in ks)) else 0)
        for o in os_[:6]:
            rep = None
            if o.get('inputs') is not None and hasattr(h, 'replay'):
                try: rep = h.replay(cases[o['case']] if o['case'] >= 0 else None, o, o['inputs'])
                except Exception as e: rep = {'confirmed': False, 'error': traceback.format_exc()[-600:]}
            witnesses.append({'inputs': o.get('inputs'), 'info': o.get('info'), 'path_prefix': o.get('prefix'), 'case': _case_repr(cases, o['case']), 'case_obj': cases[o['case']] if o['case'] >= 0 else None, 'replay': rep})
        confirmed = [w for w in witnesses if w['replay'] and w['replay'].get('confirmed')]
        fn = os.path.join(VERIF, 'replays', f'{prop}-{_safe(name)}.json')
        doc = {'property': prop, 'obligation': name, 'tier': tier, 'n_refuted_paths': len(os_), 'witnesses': witnesses,
               'confirmed_natively': bool(confirmed), 'files': h_files(h),
               'replay_cmd': f'./check --replay replays/{os.path.basename(fn)}'}
        json.dump(doc, open(fn, 'w'), indent=1, default=str)
        if kf is not None:
            line = f'KNOWN-FINDING: property={prop} {kf.get("what", name)}'
            if line not in known_lines: known_lines.append(line)
        else:
            violations.append((name, fn, bool(confirmed), witnesses))
    # ---- recorded findings that are excluded by a stated precondition: replayed natively on every run
    for k in known:
        if k.get('kind') == 'known' and k.get('native_witness') is not None and hasattr(h, 'reproduce_known'):
            try:
                line = f'KNOWN-FINDING: property={prop} {k.get("what")}'
                if h.reproduce_known(k) and line not in known_lines: known_lines.append(line)
            except Exception as e: print('note: known finding could not be replayed:', repr(e)[:200])
    # instances that fall into a recorded finding's witness class are not obligations of the claimed contract (it is stated for the complement)
    known_names = set()
    for name, os_ in groups.items():
        if not any(v[0] == name for v in violations): known_names.add(name)
    n_known = len([o for o in refuted if o['name'] in known_names])
    mine_claimed = [o for o in mine if not (o['status'] == 'refuted' and o['name'] in known_names)]
    # ---- evidence
    level = 'proof' if not getattr(h, 'BOUNDED', None) else 'other'
    samples = []
    for o in discharged[:3]: samples.append({'obligation': o['name'], 'status': o['status'], 'backend': o.get('backend'), 'case': _case_repr(cases, o['case']), 'path_prefix': o.get('prefix')})
    for name, fn, conf, wit in violations[:3]: samples.append({'obligation': name, 'status': 'refuted', 'witness': wit[0]['inputs'] if wit else None})
    ev = {'property_id': prop, 'tier': tier, 'seed': seed, 'level': level, 'wall_s': round(wall, 2), 'violations': len(violations),
          'coverage': {
              'obligations': len(mine_claimed), 'discharged': len(discharged), 'refuted': len(refuted) - n_known, 'undecided': len(undecided),
              'instances_in_recorded_finding_classes': n_known,
              'obligation_names': names, 'checker_cmd': f'./check {prop} --tier {tier}',
              'trusted_base': getattr(h, 'TRUSTED', []) + COMMON_TRUSTED,
              'functions_under_contract': h_files(h), 'paths_explored': len([r for r in results if r['outcome'] == 'ok']), 'cases': len(cases),
              'paths_outside_subset': len(outside), 'discharged_by_backend': by_backend,
              'stopped_at_time_budget': [r['note'] for r in results if r['outcome'] == 'budget'],
              'solver': {'z3_queries': stats.get('z3', 0), 'z3_time_s': round(stats.get('z3_t', 0), 2), 'cvc5_queries': stats.get('cvc5', 0), 'cvc5_time_s': round(stats.get('cvc5_t', 0), 2), 'both_unknown': stats.get('unknown', 0), 'retried_with_load_budget': stats.get('feas_retry', 0) + stats.get('obl_retry', 0)},
              'cpython_crosscheck': {'paths_checked': len([x for x in xc if x.get('status') in ('agree', 'diverged')]), 'diverged': len(xdiv), 'skipped': len([x for x in xc if x.get('status') == 'skipped'])},
              'canaries': {'planted': len(canaries), 'refuted_as_expected': len(canaries) - len(canary_bad)},
              'bounded': getattr(h, 'BOUNDED', []), 'samples': samples or [{'note': 'no obligations'}],
              'explanation': getattr(h, 'EXPLANATION', ''),
              'evaluations': len(mine), 'distinct_nontrivial': len([o for o in mine if o.get('backend') != 'structural']) },
          'assumptions': getattr(h, 'ASSUMPTIONS', []) + COMMON_ASSUMPTIONS}
    evdir = os.environ.get('PYVC_EVIDENCE_DIR') or os.path.join(VERIF, 'evidence')      # runs against a seeded scratch tree keep their evidence apart (tools/run_seeds.sh)
    os.makedirs(evdir, exist_ok=True)
    json.dump(ev, open(os.path.join(evdir, f'{prop}.json'), 'w'), indent=1, default=str)
    # ---- verdict
    print(f'[{prop}] tier={tier} cases={len(cases)} paths={ev["coverage"]["paths_explored"]} obligations={len(mine)} discharged={len(discharged)} '
          f'refuted={len(refuted)} undecided={len(undecided)} outside={len(outside)} xcheck={ev["coverage"]["cpython_crosscheck"]} wall={wall:.1f}s')
    if os.environ.get('PYVC_PROFILE'):
        agg = {}
        for r in results:
            if r.get('case', -1) >= 0:
                a = agg.setdefault(r['case'], [0, 0.0]); a[0] += 1; a[1] += r.get('t', 0)
        for ci, (n, t) in sorted(agg.items(), key=lambda kv: -kv[1][1])[:25]: print(f'  PROFILE case {cases[ci]!r}: paths={n} cpu={t:.1f}s')
    for r in results:
        if r['outcome'] == 'budget': print(f'NOTE: the {tier} tier stopped at its time budget ({r["note"]}); the verdict covers the paths explored so far')
    for l in known_lines: print(l)
    if tier != 'quick':
        kinds = {}
        for r in outside: kinds.setdefault(str(r.get('note'))[:90], []).append(_case_repr(cases, r['case']))
        for k_, v_ in list(kinds.items())[:6]: print(f'NOTE: {len(v_)} path(s) not decided: {k_} e.g. {v_[0]}')
    code = 0
    if crashes or xdiv or xerr or canary_bad:
        code = 3
        for r in crashes[:3]: print('CHECKER-FAULT crash:', r['note'])
        for x in xdiv[:5]: print('CHECKER-FAULT cpython cross-check diverged:', json.dumps(x, default=str)[:600])
        for x in xerr[:3]: print('CHECKER-FAULT cross-check error:', x.get('why'))
        for o in canary_bad[:3]: print('CHECKER-FAULT canary not refuted:', o['name'], o['status'])
    if outside and (violations or code):
        seen_notes = {}
        for r in outside: seen_notes.setdefault((r['outcome'], (r['note'] or '')[:120]), _case_repr(cases, r['case']))
        for (oc, note), cr in list(seen_notes.items())[:8]: print(f'  note: {len([1 for r in outside if (r["note"] or "")[:120] == note])} path(s) {oc}: {note}  e.g. case {cr}')
    if violations:
        code = 1          # a refuted obligation is reported as such even when the run also shows checker faults (they are printed above)
        for name, fn, conf, wit in violations:
            tail = '' if conf else ' no-failing-input-found'
            print(f'VIOLATION property={prop} replay={fn}{tail}')
            print(f'   obligation {name} refuted; witness: {json.dumps(wit[0]["inputs"], default=str)[:300] if wit else None}')
    if tier != 'quick':
        # the thorough tier explores as deep as solver and time budgets allow: a path whose feasibility (or an obligation whose validity) both solvers leave open within the
        # load-sized retry budget is reported as not explored, it does not void the verdict on what was explored.  The quick tier stays strict: everything decided, or exit 2.
        soft = [r for r in outside if r['outcome'] == 'undecided' and 'both solvers unknown' in str(r.get('note'))]
        soft_ob = [o for o in undecided if 'both solvers unknown' in str(o.get('why'))]
        if soft or soft_ob:
            print(f'NOTE: {len(soft)} path(s) and {len(soft_ob)} obligation(s) were left open by both solvers within the retry budget and are not part of the verdict: ' + '; '.join(sorted({_case_repr(cases, r["case"]) for r in soft} | {o["name"] for o in soft_ob})[:6]))
        outside = [r for r in outside if r not in soft]; undecided = [o for o in undecided if o not in soft_ob]
    if code == 0 and (undecided or outside or not mine):
        code = 2
        for o in undecided[:5]: print('UNDECIDED obligation', o['name'], o.get('why'))
        for r in outside[:8]: print('UNDECIDED path', r['outcome'], _case_repr(cases, r['case']), r['note'])
        if not mine: print('UNDECIDED: zero obligations generated')
    # vacuity guard against the lock file
    lock = os.path.join(VERIF, 'obligations.lock.json')
    if code == 0 and os.path.exists(lock):
        lk = json.load(open(lock)).get(prop)
        if lk:
            missing = sorted(set(lk.get('names', [])) - set(names))
            # the minimum count is the quick tier's (its case list is fixed); a time-boxed thorough run is only required to show every obligation name
            if missing or (tier == 'quick' and len(mine) < lk.get('min_obligations', 0)):
                code = 2; print(f'UNDECIDED: obligation set shrank (missing {missing[:5]}, {len(mine)} < {lk.get("min_obligations")})')
    return code, ev

COMMON_TRUSTED = ['z3 5.1.0 (python API)', '/usr/bin/cvc5 1.0.3', "pyvc's semantics of the Python subset, of CPython re (search on ^...$ patterns) and str.format -- cross-checked against CPython on every explored path, not proved"]
COMMON_ASSUMPTIONS = ['A-unicode: code points above U+2FFFF are outside the string model',
                      'A-unicode-sym: non-ASCII decimal digits are represented by the block U+0660-U+0669',
                      'A-log: arguments of debug/info/warning/error calls are total and side-effect free (the calls are dropped)',
                      'A-snapshot: the Resolver instances hold exactly the patterns/formats/key sets reported by the live objects after `import spil` (their __init__ is outside the subset)',
                      'A-gen: generators are evaluated eagerly (laziness is not observable by the pure functions under contract)']

def h_files(h):
    out = []
    for rel, fns in getattr(h, 'FUNCTIONS', {}).items():
        p = rel if os.path.isabs(rel) else os.path.join(W.REPO, rel)
        out.append({'file': rel, 'sha256': W.sha(p) if os.path.exists(p) else None, 'functions': fns})
    return out
def _safe(s): return ''.join(c if c.isalnum() or c in '-_.' else '_' for c in s)[:120]
def _case_repr(cases, i):
    try: return repr(cases[i])[:200] if i is not None and i >= 0 else None
    except Exception: return None
