"""./check --replay <file>: re-run the concrete witnesses of a replay file against the current /repo tree.
exit 1 if a witness still violates its clause, 0 otherwise."""
from __future__ import annotations
import json, sys, os, importlib
def _tuplify(x):
    if isinstance(x, list): return tuple(_tuplify(y) for y in x)
    return x
def main(path):
    doc = json.load(open(path))
    h = importlib.import_module('contracts.' + doc['property'].lower())
    bad = 0
    for w in doc.get('witnesses', []):
        if w.get('inputs') is None: continue
        r = h.replay(_tuplify(w.get('case_obj')), {'name': doc['obligation'], 'info': w.get('info')}, w['inputs'])
        print(json.dumps({'inputs': w['inputs'], 'replay': r}, default=str)[:800])
        if r.get('confirmed'): bad += 1
    if bad:
        print(f'VIOLATION property={doc["property"]} replay={path}')
        return 1
    print('no witness of this replay file violates its clause on the current tree')
    return 0
