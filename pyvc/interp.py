"""
pyvc.interp -- symbolic interpreter for the Python subset of DESIGN 2.2, working directly on the `ast` of the real
repository files (re-read on every run).  Heap objects have identity; strings are pyvc.sstr structured strings.

What is dropped from the source text (complete list): docstrings, annotations, @overload stubs, `if __name__ == "__main__"`
blocks, and the *effects* of debug/info/warning/warn/error/print/log.* expression statements (log arguments are not
evaluated: assumption A-log "log arguments are total and side-effect free").
"""
from __future__ import annotations
import ast, os, string as _string
import z3
from .sstr import (SStr, S, SBool, SInt, Var, PathState, Infeasible, OutsideSubset, Undecided, simp, zb)

# ------------------------------------------------------------------ values
class PDict:
    def __init__(self, items=()): self.items = [list(kv) for kv in items]
    def __repr__(self): return 'D{' + ', '.join(f'{k!r}: {v!r}' for k, v in self.items) + '}'
class PDefaultDict(PDict):
    """collections.defaultdict: a missing key read by d[k] is created from the factory"""
    def __init__(self, factory=None, items=()): PDict.__init__(self, items); self.factory = factory
class PSet:
    def __init__(self, items=()): self.items = list(items)
    def __repr__(self): return 'Set' + repr(self.items)
class PObj:
    def __init__(self, cls): self.cls = cls; self.attrs = {}
    def __repr__(self): return f'<{self.cls.name} {self.attrs}>'
class PClass:
    def __init__(self, name, bases=(), module=None): self.name = name; self.bases = list(bases); self.ns = {}; self.module = module
    def lookup(self, n):
        if n in self.ns: return self.ns[n]
        for b in self.bases:
            r = b.lookup(n)
            if r is not None: return r
        return None
    def is_sub(self, other): return self is other or any(b.is_sub(other) for b in self.bases)
    def __repr__(self): return f'<class {self.name}>'
class PFunc:
    def __init__(self, node, module, closure=(), cls=None, name=None):
        self.node = node; self.module = module; self.closure = list(closure); self.cls = cls; self.attrs = {}
        self.name = name or getattr(node, 'name', '<lambda>'); self.is_property = False; self.is_static = False; self.is_classmethod = False
        self.is_generator = None
    @property
    def qualname(self):
        return f'{self.module.name}:{self.cls.name + "." if self.cls else ""}{self.name}'
    def __repr__(self): return f'<func {self.name}>'
class PBound:
    def __init__(self, obj, fn): self.obj = obj; self.fn = fn
class PBuiltin:
    def __init__(self, fn, name=''): self.fn = fn; self.name = name or getattr(fn, '__name__', '?')
    def __repr__(self): return f'<builtin {self.name}>'
class PModule:
    def __init__(self, name): self.name = name; self.ns = {}
    def __repr__(self): return f'<module {self.name}>'
class Lazy:
    def __init__(self, module, name): self.module = module; self.name = name
class Opaque:
    """a value that is not modelled (can only be passed around)"""
    def __init__(self, why): self.why = why
    def __repr__(self): return f'<opaque {self.why}>'
class OpenList(list):
    """list whose tail is unknown (at least len elements): supports only unpack / len-truthiness"""
class CountGE1:
    """result of str.count known to be >= 1 (only truthiness is supported)"""
class DictKeys(list):
    """dict.keys() view: iterable, comparable as a set"""
    def __init__(self, d): super().__init__(k for k, _ in d.items)

class Raised(Exception):
    def __init__(self, exc): self.exc = exc     # PObj of an exception class
class ReturnSig(Exception):
    def __init__(self, v): self.v = v
class BreakSig(Exception): pass
class ContinueSig(Exception): pass

B_EXC = {}
def _mk_exc(name, base=None):
    c = PClass(name, [B_EXC[base]] if base else []); B_EXC[name] = c; return c
for _n, _b in [('BaseException', None), ('Exception', 'BaseException'), ('ValueError', 'Exception'), ('LookupError', 'Exception'), ('KeyError', 'LookupError'),
               ('IndexError', 'LookupError'), ('TypeError', 'Exception'), ('AttributeError', 'Exception'), ('StopIteration', 'Exception'),
               ('RuntimeError', 'Exception'), ('NotImplementedError', 'RuntimeError'), ('OSError', 'Exception'), ('FileNotFoundError', 'OSError'),
               ('AssertionError', 'Exception'), ('ImportError', 'Exception'), ('ModuleNotFoundError', 'ImportError'), ('NameError', 'Exception'),
               ('ZeroDivisionError', 'Exception'), ('UnicodeError', 'ValueError'), ('RecursionError', 'RuntimeError')]:
    _mk_exc(_n, _b)
B_EXC['IOError'] = B_EXC['OSError']
OBJECT = PClass('object')

def mk_exc(name, msg=''):
    o = PObj(B_EXC[name]); o.attrs['args'] = (msg,); return o
def exc_name(r: Raised): return r.exc.cls.name
def exc_is(r: Raised, name): return any(c.name == name for c in _mro(r.exc.cls))
def _mro(c):
    out = [c]
    for b in c.bases: out.extend(_mro(b))
    return out

LOG_NAMES = {'debug', 'info', 'warning', 'warn', 'error', 'print', 'critical'}

# ------------------------------------------------------------------ world
class World:
    """process-wide, path-independent data: parsed sources, special-module factories, contracts"""
    def __init__(self, repo):
        self.repo = repo; self.special = {}; self._ast = {}; self.files = {}; self.site = None
        self.specs = {}       # qualname -> callable(it, fn, args, kwargs): modular replacement of the body
        self.monitors = {}    # qualname -> callable(it, fn, args, kwargs, result_or_Raised)
        self.search_paths = [repo]
    def parse(self, path):
        if path not in self._ast:
            src = open(path).read(); self.files[path] = src; self._ast[path] = ast.parse(src)
        return self._ast[path]
    def find_module(self, name):
        for root in self.search_paths:
            path = os.path.join(root, *name.split('.'))
            if os.path.isdir(path) and os.path.exists(os.path.join(path, '__init__.py')): return os.path.join(path, '__init__.py')
            if os.path.exists(path + '.py'): return path + '.py'
        return None

# ------------------------------------------------------------------ interpreter
class Interp:
    def __init__(self, st: PathState, world: World):
        self.st = st; self.world = world; self.depth = 0
        self.modules = {}       # module objects are per path: they hold mutable state (caches)
        self.cur_module = None; self.cur_exc = None
        self.inline_only = set()      # qualnames whose body is under verification (never replaced by their spec)
        self.call_log = []
    # ---------------- modules
    def module(self, name):
        if name in self.modules: return self.modules[name]
        if name in self.world.special:
            m = self.world.special[name](self); self.modules[name] = m; return m
        path = self.world.find_module(name)
        if path is None: raise OutsideSubset(f'module {name}')
        m = PModule(name); self.modules[name] = m
        m.ns['__name__'] = name; m.ns['__file__'] = path
        tree = self.world.parse(path)
        self.exec_block(tree.body, [m.ns], module=m, toplevel=True)
        return m
    def resolve(self, v):
        while isinstance(v, Lazy):
            mod = self.module(v.module)
            if v.name is None: return mod
            if v.name in mod.ns: v = mod.ns[v.name]
            else:
                sub = f'{v.module}.{v.name}'
                if sub in self.world.special or self.world.find_module(sub): v = self.module(sub)
                else: self.raise_('ImportError', f'cannot import name {v.name!r} from {v.module!r}')
        return v
    # ---------------- helpers
    def raise_(self, name, msg=''): raise Raised(mk_exc(name, msg))
    def lookup(self, name, env):
        for scope in env:
            if name in scope: return self.resolve(scope[name])
        if name in BUILTINS: return BUILTINS[name]
        if name in B_EXC: return B_EXC[name]
        self.raise_('NameError', name)
    def truthy(self, v):
        if v is None: return False
        if isinstance(v, (bool, SBool)): return v
        if isinstance(v, int): return v != 0
        if isinstance(v, SInt): return SBool(v.z != 0)
        if isinstance(v, str): return bool(v)
        if isinstance(v, SStr): return self.st.truthy_str(v)
        if isinstance(v, (PDict, PSet)): return bool(v.items)
        if isinstance(v, (list, tuple)): return bool(v) or isinstance(v, OpenList)
        if isinstance(v, CountGE1): return True
        if isinstance(v, PObj):
            for dunder in ('__bool__', '__len__'):
                f = v.cls.lookup(dunder)
                if f is not None: return self.truthy(self.call(PBound(v, f), [], {}))
            return True
        if hasattr(v, 'pyvc_truthy'): return v.pyvc_truthy(self)
        if isinstance(v, (PFunc, PClass, PModule, PBuiltin, PBound)) or hasattr(v, 'pyvc_getattr'): return True
        raise OutsideSubset(f'truthy {type(v).__name__}')
    def is_true(self, v, label=''):
        r = self.st.branch(self.truthy(v), label)
        if not r and isinstance(v, SStr):
            n = self.st.norm(v)
            if len(n.atoms) == 1 and isinstance(n.atoms[0], Var): self.st.subst_lit(n, '')    # the variable is the empty string on this path
        return r
    def py_eq(self, a, b):
        """python == ; returns bool | SBool"""
        if isinstance(a, (DictKeys, PSet)) and isinstance(b, (DictKeys, PSet)) and (isinstance(a, PSet) or isinstance(b, PSet)):
            xa = list(a) if not isinstance(a, PSet) else a.items; xb = list(b) if not isinstance(b, PSet) else b.items
            if len(xa) != len(xb): return False
            return all(any(self.known_eq(x, y) for y in xb) for x in xa)
        if a is b and not isinstance(a, (SStr,)): return True
        if isinstance(a, (str, SStr)) and isinstance(b, (str, SStr)):
            if isinstance(a, str) and isinstance(b, str): return a == b
            return self.st.eq(a, b)
        if a is None or b is None: return a is None and b is None
        if isinstance(a, SInt) or isinstance(b, SInt):
            if isinstance(a, (int, SInt)) and isinstance(b, (int, SInt)) and not isinstance(a, bool) and not isinstance(b, bool):
                return SBool(_zi(a) == _zi(b))
            return False
        if isinstance(a, bool) or isinstance(b, bool) or (isinstance(a, int) and isinstance(b, int)):
            return (isinstance(a, int) and isinstance(b, int)) and a == b
        if isinstance(a, (tuple, list)) and type(a) == type(b) or (isinstance(a, list) and isinstance(b, list)):
            if isinstance(a, OpenList) or isinstance(b, OpenList): raise OutsideSubset('== on open list')
            if len(a) != len(b): return False
            return self.conj([self.py_eq(x, y) for x, y in zip(a, b)])
        if isinstance(a, PObj):
            f = a.cls.lookup('__eq__')
            if f is not None: return self.truthy(self.call(PBound(a, f), [b], {}))
            return a is b
        if isinstance(b, PObj): return self.py_eq(b, a)
        if isinstance(a, PDict) and isinstance(b, PDict):
            if len(a.items) != len(b.items): return False
            rs = []
            for k, v in a.items:
                hit = [vv for kk, vv in b.items if self.known_eq(kk, k)]
                if not hit: return False
                rs.append(self.py_eq(v, hit[0]))
            return self.conj(rs)
        if hasattr(a, 'pyvc_eq'): return a.pyvc_eq(self, b)
        if hasattr(b, 'pyvc_eq'): return b.pyvc_eq(self, a)
        if type(a) != type(b): return False
        return a is b
    def known_eq(self, a, b):
        r = self.py_eq(a, b)
        if isinstance(r, bool): return r
        t = self.st.branch(r, 'eq')
        if t and isinstance(a, (str, SStr)) and isinstance(b, (str, SStr)): self.st.unify(a, b)
        return t
    def key_eq(self, a, b):
        """do a and b denote the same key of a dict / set / functools.lru_cache table?  CPython: same object, or equal hashes AND ==.
        Hashes of strings are taken to be injective (A-hash: no accidental collisions); an object without __hash__ hashes by identity."""
        if a is b and not isinstance(a, SStr): return True
        if isinstance(a, tuple) and isinstance(b, tuple):
            return len(a) == len(b) and all(self.key_eq(x, y) for x, y in zip(a, b))
        if isinstance(a, PObj) or isinstance(b, PObj):
            ha, hb = _b_hash(self, a), _b_hash(self, b)
            if not (isinstance(ha, HashOf) and isinstance(hb, HashOf)): raise OutsideSubset('__hash__ returning a non-hash value')
            if isinstance(ha.of, PObj) or isinstance(hb.of, PObj): return False          # identity hash of an object without __hash__ (a is not b)
            if isinstance(ha.of, ReprOf) != isinstance(hb.of, ReprOf): return False
            he = ha.pyvc_eq(self, hb)
            if he is False: return False
            if he is not True and not self.st.branch(he, 'hash-eq'): return False
        return self.known_eq(a, b)
    def conj(self, rs):
        if any(r is False for r in rs): return False
        zs = [r.z for r in rs if r is not True]
        if not zs: return True
        return SBool(z3.And(*zs) if len(zs) > 1 else zs[0])
    def disj(self, rs):
        if any(r is True for r in rs): return True
        zs = [r.z for r in rs if r is not False]
        if not zs: return False
        return SBool(z3.Or(*zs) if len(zs) > 1 else zs[0])
    def neg(self, r): return (not r) if isinstance(r, bool) else SBool(z3.Not(r.z))
    def to_str(self, v):
        if isinstance(v, (str, SStr)): return v
        if v is None: return 'None'
        if isinstance(v, bool): return str(v)
        if isinstance(v, int): return str(v)
        if isinstance(v, PObj):
            f = v.cls.lookup('__str__')
            if f is not None: return self.call(PBound(v, f), [], {})
            f = v.cls.lookup('__repr__')
            if f is not None: return self.call(PBound(v, f), [], {})
            if v.cls.is_sub(B_EXC['BaseException']):
                a = v.attrs.get('args', ())
                return self.to_str(a[0]) if len(a) == 1 else Opaque('str(exc)')
            return f'<{v.cls.name} object>'
        if hasattr(v, 'pyvc_str'): return v.pyvc_str(self)
        if isinstance(v, (PDict, list, tuple, PSet, Opaque, PFunc, PBound, PClass, PModule, PBuiltin, SInt, CountGE1)): return Opaque('str of ' + type(v).__name__)
        raise OutsideSubset(f'str({type(v).__name__})')
    def concat(self, parts):
        out = SStr([])
        for p in parts:
            if isinstance(p, Opaque): return p
            out = out + S(p)
        return out.lit() if out.is_lit() else out
    # ---------------- attribute access
    def getattr(self, o, name):
        o = self.resolve(o)
        if isinstance(o, PModule):
            if name in o.ns: return self.resolve(o.ns[name])
            sub = f'{o.name}.{name}'
            if sub in self.modules: return self.modules[sub]
            self.raise_('AttributeError', f'module {o.name} has no attribute {name}')
        if isinstance(o, PObj):
            if name in o.attrs: return o.attrs[name]
            if name == '__class__': return o.cls
            if name == '__dict__': return Opaque('__dict__')
            f = o.cls.lookup(name)
            if f is None: self.raise_('AttributeError', name)
            f = self.resolve(f)
            if isinstance(f, PFunc):
                if f.is_property: return self.call(f, [o], {})
                if f.is_static: return f
                if f.is_classmethod: return PBound(o.cls, f)
                return PBound(o, f)
            return f
        if isinstance(o, PClass):
            if name == '__name__': return o.name
            f = o.lookup(name)
            if f is None: self.raise_('AttributeError', name)
            f = self.resolve(f)
            if isinstance(f, PFunc) and f.is_classmethod: return PBound(o, f)
            return f
        if isinstance(o, PFunc):
            if name in o.attrs: return o.attrs[name]
            if name in ('__name__', '__qualname__'): return o.name
            if name == '__doc__': return None
            if name == '__module__': return o.module.name
            if name == '__dict__': return Opaque('__dict__')
            if name == '__wrapped__' and '__wrapped__' in o.attrs: return o.attrs['__wrapped__']
            self.raise_('AttributeError', name)
        if isinstance(o, (str, SStr)):
            if name in STR_METHODS: return PBound(o, PBuiltin(STR_METHODS[name], 'str.' + name))
            raise OutsideSubset(f'str.{name}')
        if isinstance(o, PDict):
            if name in DICT_METHODS: return PBound(o, PBuiltin(DICT_METHODS[name], 'dict.' + name))
            raise OutsideSubset(f'dict.{name}')
        if isinstance(o, list):
            if name in LIST_METHODS: return PBound(o, PBuiltin(LIST_METHODS[name], 'list.' + name))
            raise OutsideSubset(f'list.{name}')
        if isinstance(o, tuple):
            if name in ('index', 'count'): return PBound(list(o), PBuiltin(LIST_METHODS[name], 'tuple.' + name))
        if isinstance(o, PSet):
            if name in SET_METHODS: return PBound(o, PBuiltin(SET_METHODS[name], 'set.' + name))
            raise OutsideSubset(f'set.{name}')
        if hasattr(o, 'pyvc_getattr'): return o.pyvc_getattr(self, name)
        if o is None: self.raise_('AttributeError', f"'NoneType' object has no attribute {name!r}")
        if isinstance(o, (bool, int)): self.raise_('AttributeError', f"'int' object has no attribute {name!r}")
        raise OutsideSubset(f'getattr {type(o).__name__}.{name}')
    # ---------------- calls
    def call(self, f, args, kwargs):
        f = self.resolve(f)
        if isinstance(f, PBound):
            return self.call(f.fn, [f.obj] + list(args), kwargs)
        if isinstance(f, PBuiltin): return f.fn(self, *args, **kwargs)
        if isinstance(f, PClass): return self.instantiate(f, args, kwargs)
        if isinstance(f, PFunc): return self.call_user(f, args, kwargs)
        if hasattr(f, 'pyvc_call'): return f.pyvc_call(self, args, kwargs)
        if f is None: self.raise_('TypeError', "'NoneType' object is not callable")
        if isinstance(f, (str, SStr, int, list, tuple, PDict)): self.raise_('TypeError', 'object is not callable')
        raise OutsideSubset(f'call {f!r}')
    def instantiate(self, c, args, kwargs):
        if c.is_sub(B_EXC['BaseException']) and c.lookup('__init__') is None:
            o = PObj(c); o.attrs['args'] = tuple(args); return o
        new = c.lookup('__new__')
        if new is not None: o = self.call(new, [c] + list(args), kwargs)
        else: o = PObj(c)
        if isinstance(o, PObj) and o.cls.is_sub(c):
            init = o.cls.lookup('__init__')
            if init is not None: self.call(init, [o] + list(args), kwargs)
            elif c.is_sub(B_EXC['BaseException']): o.attrs['args'] = tuple(args)
            elif (args or kwargs) and new is OBJECT.ns['__new__']: self.raise_('TypeError', f'{c.name}() takes no arguments')
        return o
    def bind(self, f, args, kwargs):
        a = f.node.args; env = {}
        params = [p.arg for p in a.posonlyargs + a.args]
        ndef = len(a.defaults)
        if len(args) > len(params) and not a.vararg: self.raise_('TypeError', f'{f.name}() takes {len(params)} positional arguments but {len(args)} were given')
        for p, v in zip(params, args): env[p] = v
        if a.vararg: env[a.vararg.arg] = tuple(args[len(params):])
        extra = []
        kwonly = [p.arg for p in a.kwonlyargs]
        posonly = [p.arg for p in a.posonlyargs]
        for k, v in kwargs.items():
            if (k in params and k not in posonly) or k in kwonly:
                if k in env: self.raise_('TypeError', f'{f.name}() got multiple values for argument {k!r}')
                env[k] = v
            elif a.kwarg: extra.append((k, v))
            else: self.raise_('TypeError', f'{f.name}() got an unexpected keyword argument {k!r}')
        if a.kwarg: env[a.kwarg.arg] = PDict(extra)
        for i, p in enumerate(params):
            if p not in env:
                j = i - (len(params) - ndef)
                if j < 0: self.raise_('TypeError', f'{f.name}() missing required argument {p!r}')
                env[p] = f.defaults[j] if getattr(f, 'defaults', None) is not None else self.eval(a.defaults[j], f.closure + [f.module.ns])
        for p, d in zip(kwonly, a.kw_defaults):
            if p not in env:
                if d is None: self.raise_('TypeError', f'{f.name}() missing keyword-only argument {p!r}')
                env[p] = self.eval(d, f.closure + [f.module.ns])
        return env
    def call_user(self, f, args, kwargs):
        self.depth += 1
        if self.depth > 80: raise OutsideSubset('recursion depth')
        try:
            qn = None
            if not isinstance(f.node, ast.Lambda):
                qn = f.qualname
                spec = self.world.specs.get(qn)
                if spec is not None and qn not in self.inline_only:
                    return spec(self, f, list(args), dict(kwargs))
            mon = self.world.monitors.get(qn) if qn else None
            if mon is None: return self._run_body(f, args, kwargs)
            pre = mon(self, f, list(args), dict(kwargs), None, 'pre')
            try: res = self._run_body(f, args, kwargs)
            except Raised as r:
                mon(self, f, list(args), dict(kwargs), r, 'raise', pre); raise
            mon(self, f, list(args), dict(kwargs), res, 'post', pre)
            return res
        finally: self.depth -= 1
    def _run_body(self, f, args, kwargs):
        env = self.bind(f, args, kwargs)
        scopes = [env] + f.closure + [f.module.ns]
        if isinstance(f.node, ast.Lambda): return self.eval(f.node.body, scopes)
        if f.is_generator is None:
            f.is_generator = _has_yield(f.node)
        prev = self.cur_module; self.cur_module = f.module
        try:
            if f.is_generator:
                out = []; env['__yield__'] = out
                try: self.exec_block(f.node.body, scopes)
                except ReturnSig: pass
                return GenList(out)        # generator == list of its yields (eager); A-gen: laziness is not observable in pure code
            try: self.exec_block(f.node.body, scopes)
            except ReturnSig as r: return r.v
            return None
        finally: self.cur_module = prev
    # ---------------- expressions
    def eval(self, n, env):
        t = type(n)
        if t is ast.Constant: return n.value
        if t is ast.Name: return self.lookup(n.id, env)
        if t is ast.Tuple: return tuple(self.eval_seq(n.elts, env))
        if t is ast.List: return list(self.eval_seq(n.elts, env))
        if t is ast.Set:
            s = PSet()
            for x in self.eval_seq(n.elts, env): _set_add(self, s, x)
            return s
        if t is ast.Dict:
            d = PDict()
            for k, v in zip(n.keys, n.values):
                if k is None: DICT_METHODS['update'](self, d, self.eval(v, env))
                else: self.dict_set(d, self.eval(k, env), self.eval(v, env))
            return d
        if t is ast.JoinedStr:
            parts = []
            for v in n.values:
                if isinstance(v, ast.Constant): parts.append(v.value)
                else:
                    x = self.eval(v.value, env)
                    if v.format_spec is not None: raise OutsideSubset('f-string format spec')
                    if v.conversion == ord('r'): parts.append(_b_repr(self, x))
                    else: parts.append(self.to_str(x))
            return self.concat(parts)
        if t is ast.Attribute: return self.getattr(self.eval(n.value, env), n.attr)
        if t is ast.BoolOp:
            v = None
            for e in n.values:
                v = self.eval(e, env); tr = self.is_true(v, f'boolop@{n.lineno}')
                if isinstance(n.op, ast.Or) and tr: return v
                if isinstance(n.op, ast.And) and not tr: return v
            return v
        if t is ast.UnaryOp:
            v = self.eval(n.operand, env)
            if isinstance(n.op, ast.Not): return self.neg(self.truthy(v))
            if isinstance(n.op, ast.USub) and isinstance(v, int): return -v
            if isinstance(n.op, ast.USub) and isinstance(v, SInt): return SInt(-v.z)
            raise OutsideSubset('unaryop')
        if t is ast.IfExp:
            return self.eval(n.body if self.is_true(self.eval(n.test, env), f'ifexp@{n.lineno}') else n.orelse, env)
        if t is ast.Compare:
            left = self.eval(n.left, env); res = True
            for i, (op, c) in enumerate(zip(n.ops, n.comparators)):
                right = self.eval(c, env)
                r = self.compare(op, left, right)
                if i < len(n.ops) - 1:
                    if not self.st.branch(r, f'cmp@{n.lineno}'): return False
                res = r; left = right
            return res
        if t is ast.BinOp: return self.binop(n.op, self.eval(n.left, env), self.eval(n.right, env))
        if t is ast.Call:
            f = self.eval(n.func, env)
            args = []
            for a in n.args:
                if isinstance(a, ast.Starred): args.extend(self.iterate(self.eval(a.value, env)))
                else: args.append(self.eval(a, env))
            kwargs = {}
            for k in n.keywords:
                if k.arg is None:
                    d = self.eval(k.value, env)
                    if not isinstance(d, PDict): raise OutsideSubset('** of non-dict')
                    for kk, vv in d.items:
                        kk = simp(self.st.norm(kk)) if isinstance(kk, SStr) else kk
                        if not isinstance(kk, str): raise OutsideSubset(f'**kwargs with symbolic key {kk!r}')
                        if kk in kwargs: self.raise_('TypeError', f'got multiple values for keyword argument {kk!r}')
                        kwargs[kk] = vv
                else: kwargs[k.arg] = self.eval(k.value, env)
            return self.call(f, args, kwargs)
        if t is ast.Subscript: return self.subscript(self.eval(n.value, env), n.slice, env)
        if t is ast.Lambda:
            return PFunc(n, self.cur_module, closure=env[:-1] if len(env) > 1 else [], name='<lambda>')
        if t in (ast.ListComp, ast.GeneratorExp, ast.SetComp):
            out = []
            self.comp(n.generators, 0, env, lambda e: out.append(self.eval(n.elt, e)))
            if t is ast.SetComp:
                s = PSet()
                for x in out: _set_add(self, s, x)
                return s
            return out
        if t is ast.DictComp:
            d = PDict()
            self.comp(n.generators, 0, env, lambda e: self.dict_set(d, self.eval(n.key, e), self.eval(n.value, e)))
            return d
        if t is ast.NamedExpr:
            v = self.eval(n.value, env); self.assign(n.target, v, env); return v
        if t is ast.Starred: raise OutsideSubset('starred')
        raise OutsideSubset(t.__name__)
    def eval_seq(self, elts, env):
        out = []
        for e in elts:
            if isinstance(e, ast.Starred): out.extend(self.iterate(self.eval(e.value, env)))
            else: out.append(self.eval(e, env))
        return out
    def comp(self, gens, i, env, emit):
        if i == len(gens): emit(env); return
        g = gens[i]
        for item in self.iterate(self.eval(g.iter, env)):
            e2 = [dict()] + env
            self.assign(g.target, item, e2)
            if all(self.is_true(self.eval(c, e2), 'comp-if') for c in g.ifs): self.comp(gens, i + 1, e2, emit)
    def _live_iter(self, v):
        """CPython's iteration over a container that the loop body may mutate: a list is read by index against its current length (an element removed
        at or before the cursor makes the next one be skipped); a dict / set whose size changed raises RuntimeError at the next step"""
        if type(v) is list:
            i = 0
            while i < len(v):
                yield v[i]; i += 1
            return
        items = [k for k, _ in v.items] if isinstance(v, PDict) else list(v.items)
        n = len(items)
        for k in items:
            if len(v.items) != n: self.raise_('RuntimeError', ('dictionary' if isinstance(v, PDict) else 'Set') + ' changed size during iteration')
            yield k
    def iterate(self, v):
        if isinstance(v, OpenList): raise OutsideSubset('iterate open list')
        if isinstance(v, (list, tuple)): return list(v)
        if isinstance(v, PDict): return [k for k, _ in v.items]
        if isinstance(v, PSet): return list(v.items)
        if isinstance(v, str): return list(v)
        if isinstance(v, SStr):
            n = self.st.norm(v)
            if n.is_lit(): return list(n.lit())
            raise OutsideSubset('iterate symbolic string')
        if hasattr(v, 'pyvc_iter'): return v.pyvc_iter(self)
        if v is None or isinstance(v, (int, bool)): self.raise_('TypeError', 'object is not iterable')
        raise OutsideSubset(f'iterate {type(v).__name__}')
    def compare(self, op, a, b):
        t = type(op)
        if t is ast.Eq: return self.py_eq(a, b)
        if t is ast.NotEq:
            if isinstance(a, PObj) and a.cls.lookup('__ne__') is not None:
                return self.truthy(self.call(PBound(a, a.cls.lookup('__ne__')), [b], {}))
            return self.neg(self.py_eq(a, b))
        if t is ast.Is: return self._is(a, b)
        if t is ast.IsNot: return not self._is(a, b)
        if t in (ast.In, ast.NotIn):
            r = self.contains(b, a)
            return r if t is ast.In else self.neg(r)
        if isinstance(a, (int, SInt)) and isinstance(b, (int, SInt)) and not isinstance(a, bool) and not isinstance(b, bool):
            if isinstance(a, int) and isinstance(b, int): return {ast.Lt: a < b, ast.LtE: a <= b, ast.Gt: a > b, ast.GtE: a >= b}[t]
            za, zb_ = _zi(a), _zi(b)
            return SBool({ast.Lt: za < zb_, ast.LtE: za <= zb_, ast.Gt: za > zb_, ast.GtE: za >= zb_}[t])
        if isinstance(a, (str, SStr)) and isinstance(b, (str, SStr)) and t in (ast.Lt, ast.Gt, ast.LtE, ast.GtE):
            if isinstance(a, str) and isinstance(b, str): return {ast.Lt: a < b, ast.LtE: a <= b, ast.Gt: a > b, ast.GtE: a >= b}[t]
            if getattr(self, 'abstract_str_order', False): return self._abs_order(t, a, b)
            r = self._lex_structural(t, a, b)
            if r is not None: return r
            ra, rb = self._strip_common_prefix(a, b)
            za, zb_ = ra.z(), rb.z()
            return SBool({ast.Lt: za < zb_, ast.LtE: za <= zb_, ast.Gt: zb_ < za, ast.GtE: zb_ <= za}[t])
        if isinstance(a, PObj):
            name = {ast.Lt: '__lt__', ast.Gt: '__gt__', ast.LtE: '__le__', ast.GtE: '__ge__'}[t]
            f = a.cls.lookup(name)
            if f is not None: return self.truthy(self.call(PBound(a, f), [b], {}))
            # functools.total_ordering derived operators from __lt__ and __eq__
            lt = a.cls.lookup('__lt__')
            if lt is not None and a.cls.ns.get('__total_ordering__') or (lt is not None and any(c.ns.get('__total_ordering__') for c in _mro(a.cls))):
                l = self.truthy(self.call(PBound(a, lt), [b], {})); e = self.py_eq(a, b)
                if t is ast.LtE: return self.disj([l, e])
                if t is ast.Gt: return self.conj([self.neg(l), self.neg(e)])
                if t is ast.GtE: return self.neg(l)
        if isinstance(a, (list, tuple)) and isinstance(b, (list, tuple)) and type(a) is type(b) and not isinstance(a, OpenList) and not isinstance(b, OpenList):
            if all(isinstance(x, (str, int)) for x in list(a) + list(b)):
                return {ast.Lt: a < b, ast.LtE: a <= b, ast.Gt: a > b, ast.GtE: a >= b}[t]
            # lexicographic comparison with forks on element equality
            for x, y in zip(a, b):
                if self.known_eq(x, y): continue
                strict = ast.Lt() if t in (ast.Lt, ast.LtE) else ast.Gt()
                return self.compare(strict, x, y)
            return {ast.Lt: len(a) < len(b), ast.LtE: len(a) <= len(b), ast.Gt: len(a) > len(b), ast.GtE: len(a) >= len(b)}[t]
        if a is None or b is None: self.raise_('TypeError', 'ordering comparison with None')
        raise OutsideSubset(f'compare {t.__name__} {type(a).__name__} {type(b).__name__}')
    def _strip_common_prefix(self, a, b):
        """x.u < x.v  <=>  u < v : drop the common leading atoms / characters of two structured strings"""
        la, lb = list(self.st.norm(S(a)).atoms), list(self.st.norm(S(b)).atoms)
        while la and lb:
            x, y = la[0], lb[0]
            if isinstance(x, Var) and isinstance(y, Var) and x.name == y.name: la.pop(0); lb.pop(0); continue
            if isinstance(x, str) and isinstance(y, str):
                n = 0
                while n < len(x) and n < len(y) and x[n] == y[n]: n += 1
                if n == 0: break
                la[0] = x[n:]; lb[0] = y[n:]
                if not la[0]: la.pop(0)
                if not lb[0]: lb.pop(0)
                if n < len(x) and n < len(y): break
                continue
            break
        return SStr(la), SStr(lb)
    def _lex_structural(self, t, a, b):
        """decide a < b structurally when, after the common prefix, both continue with different literal characters or one is exhausted"""
        ra, rb = self._strip_common_prefix(a, b)
        la, lb = ra.atoms, rb.atoms
        if not la and not lb: lt, eq = False, True
        elif not la: lt, eq = None, False           # a is a proper prefix of b only if b's rest is non-empty
        elif not lb: lt, eq = None, False
        elif isinstance(la[0], str) and isinstance(lb[0], str): lt, eq = la[0][0] < lb[0][0], False
        else: return None
        if lt is None:
            rest = rb if not la else ra
            ne = self.st.truthy_str(rest)
            if ne is True: lt = not la
            elif ne is False: lt, eq = False, True
            else: return None
        return {ast.Lt: lt, ast.LtE: lt or eq, ast.Gt: (not lt) and not eq, ast.GtE: not lt}[t]
    def _abs_order(self, t, a, b):
        """string order abstracted to an arbitrary strict total order (sound for properties that must hold for every total order):
        equal strings are not less; for distinct strings one of the two directions is chosen non-deterministically, consistently per pair"""
        if self.known_eq(a, b): return t in (ast.LtE, ast.GtE)
        memo = self.__dict__.setdefault('_order_memo', {})
        ka, kb = repr(self.st.norm(S(a))), repr(self.st.norm(S(b)))
        if (ka, kb) in memo: lt = memo[(ka, kb)]
        elif (kb, ka) in memo: lt = not memo[(kb, ka)]
        else:
            lt = self.st.pick(2, 'str-order') == 0; memo[(ka, kb)] = lt
        return lt if t in (ast.Lt, ast.LtE) else not lt
    def _is(self, a, b):
        if isinstance(a, (str, SStr)) and isinstance(b, (str, SStr)): raise OutsideSubset('`is` on strings')
        if isinstance(a, bool) or isinstance(b, bool): return isinstance(a, bool) and isinstance(b, bool) and a == b
        return a is b
    def contains(self, container, x):
        if isinstance(container, (list, tuple)) and not isinstance(container, OpenList):
            for y in container:
                if self.known_eq(y, x): return True
            return False
        if isinstance(container, PSet):
            for y in container.items:
                if self.key_eq(y, x): return True
            return False
        if isinstance(container, PDict):
            for k, _ in container.items:
                if self.key_eq(k, x): return True
            return False
        if isinstance(container, (str, SStr)) and isinstance(x, (str, SStr)):
            x = simp(self.st.norm(x)) if isinstance(x, SStr) else x
            if isinstance(container, str) and isinstance(x, str): return x in container
            if isinstance(x, str):
                if x == '': return True
                if len(x) == 1 and isinstance(container, SStr):
                    c = self.st.norm(container); vs = []
                    for a in c.atoms:
                        if isinstance(a, str):
                            if x in a: return True
                        elif x not in self.st.excl.get(a.name, ()): vs.append(a)
                    if not vs: return False
                    st = self.st
                    none = [st.absent_expr(a, x) for a in vs]
                    some = [z3.Or(*[st.contains_expr(a, x) for a in vs])]
                    k = st.choose([('absent', none), ('present', some)], f'{x!r} in')
                    if k == 0:
                        del st.pc[-len(none):]       # recorded structurally as exclusions of the leaves
                        for a in vs: st.excl.setdefault(a.name, set()).add(x)
                        return False
                    return True
                c = self.st.norm(container)
                if c.is_lit(): return x in c.lit()
                if any(isinstance(a, str) and x in a for a in c.atoms): return True
                return self._contains_multi(c, x)
            c = self.st.norm(S(container))
            return SBool(z3.Contains(c.z(), self.st.norm(x).z()))
        if hasattr(container, 'pyvc_contains'): return container.pyvc_contains(self, x)
        if container is None: self.raise_('TypeError', "argument of type 'NoneType' is not iterable")
        raise OutsideSubset(f'contains {type(container).__name__}')
    def _contains_multi(self, c, x):
        """`x in c` for a multi-character literal x and a structured string c (no literal atom contains x)"""
        st = self.st; atoms = list(c.atoms)
        def may_start_suffix(a, j):      # can atom a END with x[:j] (as a suffix of its own text, a non-empty part of it)
            if isinstance(a, str): return any(a.endswith(x[:j][-m:]) for m in range(1, j + 1))
            return not all(ch in st.excl.get(a.name, ()) for ch in x[:j][-1:])
        def may_start_prefix(a, j):      # can atom a START with a non-empty prefix of x[j:]
            if isinstance(a, str): return a[0] == x[j]
            return x[j] not in st.excl.get(a.name, ())
        straddle = False
        for i in range(len(atoms) - 1):
            for j in range(1, len(x)):
                if may_start_suffix(atoms[i], j) and may_start_prefix(atoms[i + 1], j): straddle = True
        if straddle: return SBool(z3.Contains(c.z(), z3.StringVal(x)))
        parts = []
        for a in atoms:
            if isinstance(a, Var) and not any(ch in st.excl.get(a.name, ()) for ch in x): parts.append(SBool(st.contains_expr(a, x)))
        return self.disj(parts) if parts else False
    def binop(self, op, a, b):
        t = type(op)
        if t is ast.Add:
            if isinstance(a, (str, SStr)) and isinstance(b, (str, SStr)): return self.concat([a, b])
            if isinstance(a, (int, SInt)) and isinstance(b, (int, SInt)) and not isinstance(a, bool):
                if isinstance(a, int) and isinstance(b, int): return a + b
                return SInt(_zi(a) + _zi(b))
            if isinstance(a, list) and isinstance(b, list) and not isinstance(a, OpenList) and not isinstance(b, OpenList): return list(a) + list(b)
            if isinstance(a, tuple) and isinstance(b, tuple): return a + b
            if isinstance(a, (str, SStr)) or isinstance(b, (str, SStr)):
                if a is None or b is None or isinstance(a, (int, list, tuple, PDict, PObj)) or isinstance(b, (int, list, tuple, PDict, PObj)):
                    self.raise_('TypeError', 'can only concatenate str to str')
            if a is None or b is None: self.raise_('TypeError', 'unsupported operand type(s) for +')
        if t is ast.Sub and isinstance(a, (int, SInt)) and isinstance(b, (int, SInt)):
            if isinstance(a, int) and isinstance(b, int): return a - b
            return SInt(_zi(a) - _zi(b))
        if t is ast.Mult:
            if isinstance(a, int) and isinstance(b, int): return a * b
            if isinstance(a, str) and isinstance(b, int): return a * b
            if isinstance(a, list) and isinstance(b, int) and not isinstance(a, OpenList): return list(a) * b
        if t is ast.Mod and isinstance(a, str):
            return _percent_format(self, a, b)
        if t is ast.BitOr:
            if isinstance(a, PSet) and isinstance(b, PSet): return _set_union(self, a, b)
            if isinstance(a, PDict) and isinstance(b, PDict):
                d = PDict(a.items); DICT_METHODS['update'](self, d, b); return d
            return Opaque('typing union')
        if t is ast.Sub and isinstance(a, PSet) and isinstance(b, PSet):
            return PSet([x for x in a.items if not self.contains(b, x)])
        if t is ast.BitAnd and isinstance(a, PSet) and isinstance(b, PSet):
            return PSet([x for x in a.items if self.contains(b, x)])
        if t is ast.Div and hasattr(a, 'pyvc_truediv'): return a.pyvc_truediv(self, b)
        if t is ast.Div and isinstance(a, PObj):
            f = a.cls.lookup('__truediv__')
            if f is not None: return self.call(PBound(a, f), [b], {})
        raise OutsideSubset(f'binop {t.__name__} {type(a).__name__} {type(b).__name__}')
    def subscript(self, o, sl, env):
        if isinstance(sl, ast.Slice):
            lo = self.eval(sl.lower, env) if sl.lower else None; hi = self.eval(sl.upper, env) if sl.upper else None
            if sl.step is not None: raise OutsideSubset('slice step')
            if not all(x is None or (isinstance(x, int) and not isinstance(x, bool)) for x in (lo, hi)): raise OutsideSubset('symbolic slice bound')
            if isinstance(o, (list, tuple)) and not isinstance(o, OpenList): return o[lo:hi]
            if isinstance(o, str): return o[lo:hi]
            if isinstance(o, SStr): return self.str_slice(o, lo, hi)
            raise OutsideSubset('slice of ' + type(o).__name__)
        i = self.eval(sl, env)
        if isinstance(o, (list, tuple)) and isinstance(i, int):
            if isinstance(o, OpenList) and i < 0: raise OutsideSubset('open list negative index')
            if not -len(o) <= i < len(o):
                if isinstance(o, OpenList): raise OutsideSubset('open list index beyond known part')
                self.raise_('IndexError', 'list index out of range')
            return o[i]
        if isinstance(o, PDict):
            for k, v in o.items:
                if self.key_eq(k, i): return v
            if isinstance(o, PDefaultDict) and o.factory is not None:
                v = self.call(o.factory, [], {}); o.items.append([i, v]); return v
            self.raise_('KeyError', i if isinstance(i, (str, SStr)) else 'key')
        if isinstance(o, str) and isinstance(i, int):
            if not -len(o) <= i < len(o): self.raise_('IndexError', 'string index out of range')
            return o[i]
        if isinstance(o, SStr) and isinstance(i, int):
            n = self.st.norm(o)
            if i >= 0 and n.atoms and isinstance(n.atoms[0], str) and len(n.atoms[0]) > i: return n.atoms[0][i]
            if i < 0 and n.atoms and isinstance(n.atoms[-1], str) and len(n.atoms[-1]) >= -i: return n.atoms[-1][i]
            raise OutsideSubset('symbolic string index')
        if isinstance(o, PObj):
            f = o.cls.lookup('__getitem__')
            if f is not None: return self.call(PBound(o, f), [i], {})
        if hasattr(o, 'pyvc_getitem'): return o.pyvc_getitem(self, i)
        if o is None: self.raise_('TypeError', "'NoneType' object is not subscriptable")
        if isinstance(o, (PClass, PBuiltin, Opaque)): return Opaque('generic alias')
        raise OutsideSubset(f'subscript {type(o).__name__}')
    def str_slice(self, s, lo, hi):
        s = self.st.norm(s)
        if s.is_lit(): return s.lit()[lo:hi]
        if lo in (None, 0) and hi is None: return s
        if hi is None and isinstance(lo, int) and lo > 0 and s.atoms and isinstance(s.atoms[0], str) and len(s.atoms[0]) >= lo:
            return simp(SStr((s.atoms[0][lo:],) + s.atoms[1:]))
        if lo in (None, 0) and isinstance(hi, int) and hi < 0 and s.atoms and isinstance(s.atoms[-1], str) and len(s.atoms[-1]) >= -hi:
            return simp(SStr(s.atoms[:-1] + (s.atoms[-1][:hi],)))
        if lo in (None, 0) and isinstance(hi, int) and hi >= 0 and s.atoms and isinstance(s.atoms[0], str) and len(s.atoms[0]) >= hi:
            return s.atoms[0][:hi]
        if hi is None and isinstance(lo, int) and lo > 0 and s.atoms and isinstance(s.atoms[0], Var):
            # v[lo:] with a leading variable: v := h.t with |h| == lo (when v is long enough)
            v = s.atoms[0]; st = self.st
            if st.branch(SBool(z3.Length(v.z) >= lo), 'slice:long-enough'):
                n = len(st.subst); ex = st.excl.get(v.name, set())
                h = Var(f'{v.name}.{n}h'); t = Var(f'{v.name}.{n}t'); st.excl[h.name] = set(ex); st.excl[t.name] = set(ex)
                st.do_subst(v, (h, t)); st.assume(z3.Length(h.z) == lo)
                return simp(SStr((t,) + s.atoms[1:]))
        raise OutsideSubset('symbolic slice')
    def dict_set(self, d, k, v):
        if isinstance(k, (PDict, list, PSet)): self.raise_('TypeError', 'unhashable type')
        for kv in d.items:
            if self.key_eq(kv[0], k): kv[1] = v; return
        d.items.append([k, v])
    # ---------------- statements
    def exec_block(self, body, env, module=None, toplevel=False):
        prev = self.cur_module
        if module is not None: self.cur_module = module
        try:
            for s in body: self.exec(s, env, toplevel)
        finally:
            if module is not None: self.cur_module = prev
    def exec(self, s, env, toplevel=False):
        t = type(s)
        if t is ast.Expr:
            v = s.value
            if isinstance(v, ast.Constant): return
            if isinstance(v, ast.Call):
                fn = v.func
                if isinstance(fn, ast.Name) and fn.id in LOG_NAMES: return   # log effects dropped (A-log)
                if isinstance(fn, ast.Attribute) and isinstance(fn.value, ast.Name) and fn.value.id in ('log', 'logger', 'logging') and fn.attr in LOG_NAMES | {'exception'}: return
            if isinstance(v, ast.Yield):
                self.lookup('__yield__', env).append(self.eval(v.value, env) if v.value else None); return
            if isinstance(v, ast.YieldFrom):
                self.lookup('__yield__', env).extend(self.iterate(self.eval(v.value, env))); return
            self.eval(v, env); return
        if t is ast.Return: raise ReturnSig(self.eval(s.value, env) if s.value else None)
        if t is ast.Pass: return
        if t is ast.If:
            if toplevel and isinstance(s.test, ast.Compare) and isinstance(s.test.left, ast.Name) and s.test.left.id == '__name__': return
            self.exec_block(s.body if self.is_true(self.eval(s.test, env), f'if@{s.lineno}') else s.orelse, env); return
        if t is ast.Assign:
            v = self.eval(s.value, env)
            for tg in s.targets: self.assign(tg, v, env)
            return
        if t is ast.AnnAssign:
            if s.value is not None: self.assign(s.target, self.eval(s.value, env), env)
            return
        if t is ast.AugAssign:
            cur = self.eval(s.target, env); v = self.eval(s.value, env)
            if isinstance(s.op, ast.Add) and isinstance(cur, list) and not isinstance(cur, OpenList):
                cur.extend(self.iterate(v)); return       # list += is in place
            self.assign(s.target, self.binop(s.op, cur, v), env); return
        if t is ast.For:
            broke = False
            src = self.eval(s.iter, env)
            for item in (self._live_iter(src) if type(src) is list or isinstance(src, (PDict, PSet)) else self.iterate(src)):
                self.assign(s.target, item, env)
                try: self.exec_block(s.body, env)
                except BreakSig: broke = True; break
                except ContinueSig: continue
            if not broke: self.exec_block(s.orelse, env)
            return
        if t is ast.While:
            n = 0
            while self.is_true(self.eval(s.test, env), f'while@{s.lineno}'):
                n += 1
                if n > 64: raise OutsideSubset('while bound 64')
                try: self.exec_block(s.body, env)
                except BreakSig: break
                except ContinueSig: continue
            else:
                self.exec_block(s.orelse, env)
            return
        if t is ast.Break: raise BreakSig()
        if t is ast.Continue: raise ContinueSig()
        if t is ast.Raise:
            if s.exc is None:
                if self.cur_exc is None: self.raise_('RuntimeError', 'No active exception to reraise')
                raise self.cur_exc
            e = self.eval(s.exc, env)
            if isinstance(e, PClass): e = self.instantiate(e, [], {})
            if not (isinstance(e, PObj) and e.cls.is_sub(B_EXC['BaseException'])): self.raise_('TypeError', 'exceptions must derive from BaseException')
            raise Raised(e)
        if t is ast.Try:
            try:
                try:
                    self.exec_block(s.body, env)
                except Raised as r:
                    for h in s.handlers:
                        if h.type is None: ok = True
                        else:
                            ht = self.eval(h.type, env); hts = ht if isinstance(ht, tuple) else (ht,)
                            ok = any(isinstance(c, PClass) and r.exc.cls.is_sub(c) for c in hts)
                        if ok:
                            if h.name: env[0][h.name] = r.exc
                            prev = self.cur_exc; self.cur_exc = r
                            try: self.exec_block(h.body, env)
                            finally: self.cur_exc = prev
                            break
                    else:
                        raise
                else:
                    self.exec_block(s.orelse, env)
            finally:
                # python semantics: finalbody runs on every exit; control-flow signals propagate after it
                if s.finalbody: self.exec_block(s.finalbody, env)
            return
        if t is ast.Assert:
            if not self.is_true(self.eval(s.test, env), 'assert'): self.raise_('AssertionError')
            return
        if t is ast.FunctionDef:
            f = PFunc(s, self.cur_module, closure=[] if toplevel else env[:-1])
            if isinstance(env[0], dict) and env[0].get('__class_body__') is not None: f.closure = env[1:-1]
            v = f
            for d in reversed(s.decorator_list):
                if isinstance(d, ast.Name) and d.id == 'property': f.is_property = True; continue
                if isinstance(d, ast.Name) and d.id == 'staticmethod': f.is_static = True; continue
                if isinstance(d, ast.Name) and d.id == 'classmethod': f.is_classmethod = True; continue
                if isinstance(d, ast.Name) and d.id == 'overload': return     # typing stubs dropped
                if isinstance(d, ast.Name) and d.id == 'abstractmethod': continue
                if isinstance(d, ast.Attribute) and d.attr in ('setter', 'deleter'): raise OutsideSubset('property setter')
                v = self.call(self.eval(d, env), [v], {})
            env[0][s.name] = v; return
        if t is ast.ClassDef:
            bases = [self.eval(b, env) for b in s.bases]
            c = PClass(s.name, [b for b in bases if isinstance(b, PClass)] or [OBJECT], self.cur_module)
            cns = c.ns; cns['__class_body__'] = True
            cenv = [cns] + env
            for st_ in s.body: self.exec(st_, cenv)
            del cns['__class_body__']
            for k, v in c.ns.items():
                if isinstance(v, PFunc) and v.cls is None: v.cls = c
            v = c
            for d in reversed(s.decorator_list): v = self.call(self.eval(d, env), [v], {})
            env[0][s.name] = v; return
        if t is ast.ImportFrom:
            if s.module in ('__future__', 'typing', 'typing_extensions', 'abc'):
                for a in s.names: env[0][a.asname or a.name] = Opaque('typing.' + a.name)
                return
            mod = s.module
            if s.level:
                base = self.cur_module.name.split('.')
                if not self.cur_module.ns.get('__file__', '').endswith('__init__.py'): base = base[:-1]
                base = base[:len(base) - (s.level - 1)]
                mod = '.'.join(base + ([s.module] if s.module else []))
            for a in s.names: env[0][a.asname or a.name] = Lazy(mod, a.name)
            return
        if t is ast.Import:
            for a in s.names:
                if a.asname: env[0][a.asname] = Lazy(a.name, None)
                else: env[0][a.name.split('.')[0]] = Lazy(a.name.split('.')[0], None)
            return
        if t in (ast.Global, ast.Nonlocal):
            # names are looked up through the scope chain; assignment to a global/nonlocal name must go to its owner
            env[0].setdefault('__nonlocal__', set()).update(s.names); return
        if t is ast.Delete:
            for tg in s.targets:
                if isinstance(tg, ast.Subscript):
                    o = self.eval(tg.value, env); i = self.eval(tg.slice, env)
                    if isinstance(o, PDict): DICT_METHODS['pop'](self, o, i); continue
                    if isinstance(o, list) and isinstance(i, int): del o[i]; continue
                if isinstance(tg, ast.Name) and tg.id in env[0]: del env[0][tg.id]; continue
                raise OutsideSubset('del')
            return
        if t is ast.With:
            for item in s.items:
                cm = self.eval(item.context_expr, env)
                if not hasattr(cm, 'pyvc_enter'): raise OutsideSubset('with on ' + type(cm).__name__)
                v = cm.pyvc_enter(self)
                if item.optional_vars is not None: self.assign(item.optional_vars, v, env)
            try: self.exec_block(s.body, env)
            finally:
                for item in s.items: pass
            return
        raise OutsideSubset(t.__name__)
    def assign(self, tg, v, env):
        t = type(tg)
        if t is ast.Name:
            nl = env[0].get('__nonlocal__') if isinstance(env[0], dict) else None
            if nl and tg.id in nl:
                for scope in env[1:]:
                    if tg.id in scope: scope[tg.id] = v; return
                env[-1][tg.id] = v; return
            env[0][tg.id] = v; return
        if t is ast.Attribute:
            o = self.eval(tg.value, env)
            if isinstance(o, (PObj, PFunc)): o.attrs[tg.attr] = v; return
            if isinstance(o, PModule): o.ns[tg.attr] = v; return
            if isinstance(o, PClass): o.ns[tg.attr] = v; return
            if hasattr(o, 'pyvc_setattr'): o.pyvc_setattr(self, tg.attr, v); return
            if o is None or isinstance(o, (str, SStr, int)): self.raise_('AttributeError', f'cannot set attribute {tg.attr}')
            raise OutsideSubset('setattr on ' + type(o).__name__)
        if t in (ast.Tuple, ast.List):
            if isinstance(v, OpenList):
                if any(isinstance(e, ast.Starred) for e in tg.elts): raise OutsideSubset('starred unpack of open list')
                self.raise_('ValueError', f'too many values to unpack (expected {len(tg.elts)})')
            if isinstance(v, PDict): v = [k for k, _ in v.items]
            if isinstance(v, (str, SStr)):
                n = self.st.norm(S(v))
                if not n.is_lit(): raise OutsideSubset('unpack symbolic string')
                v = list(n.lit())
            if v is None or isinstance(v, (int, bool)): self.raise_('TypeError', 'cannot unpack non-iterable object')
            if not isinstance(v, (list, tuple)): v = self.iterate(v)
            stars = [i for i, e in enumerate(tg.elts) if isinstance(e, ast.Starred)]
            if stars:
                i = stars[0]; after = len(tg.elts) - i - 1
                if len(v) < len(tg.elts) - 1: self.raise_('ValueError', 'not enough values to unpack')
                for tt, vv in zip(tg.elts[:i], v[:i]): self.assign(tt, vv, env)
                self.assign(tg.elts[i].value, list(v[i:len(v) - after]), env)
                for tt, vv in zip(tg.elts[i + 1:], v[len(v) - after:]): self.assign(tt, vv, env)
                return
            if len(v) != len(tg.elts):
                self.raise_('ValueError', f'unpack: expected {len(tg.elts)}, got {len(v)}')
            for tt, vv in zip(tg.elts, v): self.assign(tt, vv, env)
            return
        if t is ast.Subscript:
            o = self.eval(tg.value, env); i = self.eval(tg.slice, env)
            if isinstance(o, PDict): self.dict_set(o, i, v); return
            if isinstance(o, list) and isinstance(i, int) and not isinstance(o, OpenList):
                if not -len(o) <= i < len(o): self.raise_('IndexError', 'list assignment index out of range')
                o[i] = v; return
            if hasattr(o, 'pyvc_setitem'): o.pyvc_setitem(self, i, v); return
            if isinstance(o, (tuple, str, SStr)): self.raise_('TypeError', 'object does not support item assignment')
            raise OutsideSubset('subscript assign on ' + type(o).__name__)
        raise OutsideSubset(f'assign {t.__name__}')

class GenList(list):
    """result of a generator function (eagerly evaluated list of yields)"""

def _has_yield(fnode):
    """does the function body itself (not nested functions) contain yield?"""
    stack = list(fnode.body)
    while stack:
        n = stack.pop()
        if isinstance(n, (ast.Yield, ast.YieldFrom)): return True
        if isinstance(n, (ast.FunctionDef, ast.Lambda, ast.ClassDef, ast.AsyncFunctionDef)): continue
        stack.extend(ast.iter_child_nodes(n))
    return False
def _zi(x): return z3.IntVal(x) if isinstance(x, int) else x.z

# ------------------------------------------------------------------ builtins
def _b_str(it, v=''): return it.to_str(v)
def _b_repr(it, v):
    if isinstance(v, PObj):
        f = v.cls.lookup('__repr__')
        if f is not None: return it.call(PBound(v, f), [], {})
    if isinstance(v, str): return repr(v)
    if isinstance(v, SStr):
        n = it.st.norm(v)
        if n.is_lit(): return repr(n.lit())
        # repr of a string without quotes/backslashes/non-printables is the string in single quotes
        return ReprOf(v)
    if v is None or isinstance(v, (bool, int)): return repr(v)
    return Opaque('repr')
class ReprOf(Opaque):
    """repr() of a symbolic string: opaque, but remembers its argument (used by hash(repr(x)) models)"""
    def __init__(self, s): super().__init__('repr(str)'); self.s = s
def _b_isinstance(it, v, c):
    cs = c if isinstance(c, tuple) else (c,)
    for c in cs:
        if isinstance(c, PClass):
            if isinstance(v, PObj) and v.cls.is_sub(c): return True
            if c is OBJECT: return True
        elif c is BUILTINS['str']:
            if isinstance(v, (str, SStr)): return True
        elif c is BUILTINS['dict']:
            if isinstance(v, PDict): return True
        elif c is BUILTINS['list']:
            if isinstance(v, list): return True
        elif c is BUILTINS['tuple']:
            if isinstance(v, tuple): return True
        elif c is BUILTINS['set']:
            if isinstance(v, PSet): return True
        elif c is BUILTINS['int']:
            if isinstance(v, (int, SInt)): return True
        elif c is BUILTINS['bool']:
            if isinstance(v, (bool, SBool)): return True
        elif hasattr(c, 'pyvc_instancecheck'):
            if c.pyvc_instancecheck(it, v): return True
        elif isinstance(c, Opaque): raise OutsideSubset('isinstance against ' + c.why)
        else: raise OutsideSubset('isinstance target')
    return False
def _b_len(it, v):
    if isinstance(v, OpenList): raise OutsideSubset('len open list')
    if isinstance(v, (PDict, PSet)): return len(v.items)
    if isinstance(v, (list, tuple, str)): return len(v)
    if isinstance(v, SStr):
        n = it.st.norm(v)
        if n.is_lit(): return len(n.lit())
        return SInt(z3.Length(n.z()))
    if isinstance(v, PObj):
        f = v.cls.lookup('__len__')
        if f is not None: return it.call(PBound(v, f), [], {})
    if v is None or isinstance(v, (int, bool)): it.raise_('TypeError', 'object has no len()')
    raise OutsideSubset(f'len {type(v).__name__}')
def _b_list(it, v=()): return list(it.iterate(v))
def _b_tuple(it, v=()): return tuple(it.iterate(v))
def _b_set(it, v=()):
    s = PSet()
    for x in it.iterate(v): _set_add(it, s, x)
    return s
def _b_dict(it, v=None, **kw):
    d = PDict()
    if v is not None: DICT_METHODS['update'](it, d, v)
    for k, x in kw.items(): it.dict_set(d, k, x)
    return d
def _b_any(it, v):
    for x in it.iterate(v):
        if it.is_true(x, 'any'): return True
    return False
def _b_all(it, v):
    for x in it.iterate(v):
        if not it.is_true(x, 'all'): return False
    return True
def _b_bool(it, v=False): return it.truthy(v)
def _b_getattr(it, o, name, *d):
    name = simp(it.st.norm(name)) if isinstance(name, SStr) else name
    if not isinstance(name, str): raise OutsideSubset('getattr with symbolic name')
    try: return it.getattr(o, name)
    except Raised as r:
        if d and exc_is(r, 'AttributeError'): return d[0]
        raise
def _b_hasattr(it, o, name):
    try: it.getattr(o, name); return True
    except Raised as r:
        if exc_is(r, 'AttributeError'): return False
        raise
def _b_setattr(it, o, name, v):
    if isinstance(o, (PObj, PFunc)): o.attrs[name] = v; return
    raise OutsideSubset('setattr()')
class HashOf(Opaque):
    def __init__(self, of): super().__init__('hash'); self.of = of
    def pyvc_eq(self, it, other):
        if not isinstance(other, HashOf): return False
        a, b = self.of, other.of
        if isinstance(a, ReprOf) and isinstance(b, ReprOf): return it.py_eq(a.s, b.s)   # hash is a function: equal arguments, equal hashes
        if isinstance(a, (str, SStr)) and isinstance(b, (str, SStr)): return it.py_eq(a, b)
        raise OutsideSubset('hash comparison')
def _b_hash(it, v):
    if isinstance(v, PObj):
        f = v.cls.lookup('__hash__')
        if f is not None: return it.call(PBound(v, f), [], {})
    if isinstance(v, (PDict, list, PSet)): it.raise_('TypeError', 'unhashable type')
    return HashOf(v)
def _b_reversed(it, v): return list(reversed(it.iterate(v)))
def _b_enumerate(it, v, start=0): return [(i, x) for i, x in enumerate(it.iterate(v), start)]
def _b_zip(it, *vs): return [tuple(x) for x in zip(*[it.iterate(v) for v in vs])]
def _b_filter(it, f, v):
    if f is None: return [x for x in it.iterate(v) if it.is_true(x, 'filter')]
    return [x for x in it.iterate(v) if it.is_true(it.call(f, [x], {}), 'filter')]
def _b_map(it, f, *vs): return [it.call(f, list(xs), {}) for xs in zip(*[it.iterate(v) for v in vs])]
def _sort_key_concrete(x):
    return isinstance(x, (str, int)) or (isinstance(x, (tuple, list)) and all(_sort_key_concrete(y) for y in x))
def _b_sorted(it, v, key=None, reverse=False):
    xs = it.iterate(v)
    ks = [it.call(key, [x], {}) for x in xs] if key is not None else list(xs)
    ks = [simp(it.st.norm(k)) if isinstance(k, SStr) else k for k in ks]
    if all(_sort_key_concrete(k) for k in ks):
        try: order = sorted(range(len(xs)), key=lambda i: ks[i], reverse=reverse)
        except TypeError: it.raise_('TypeError', "'<' not supported between instances")
        return [xs[i] for i in order]
    # symbolic keys: insertion sort with forks on `<` (python's sort is stable and uses only __lt__)
    out = []; outk = []
    for x, k in zip(xs, ks):
        pos = len(out)
        for j in range(len(out)):
            lt = it.compare(ast.Lt(), k, outk[j]) if not reverse else it.compare(ast.Lt(), outk[j], k)
            if it.st.branch(lt if isinstance(lt, (bool, SBool)) else it.truthy(lt), 'sorted'): pos = j; break
        out.insert(pos, x); outk.insert(pos, k)
    return out
def _b_next(it, v, *d):
    xs = it.iterate(v)
    if xs: return xs[0]
    if d: return d[0]
    it.raise_('StopIteration')
def _b_iter(it, v): return it.iterate(v)
def _b_int(it, v=0, base=10):
    if isinstance(v, bool): return int(v)
    if isinstance(v, int): return v
    if isinstance(v, SStr): v = simp(it.st.norm(v))
    if isinstance(v, str):
        try: return int(v, base)
        except ValueError: it.raise_('ValueError', 'invalid literal for int()')
    if isinstance(v, SStr): return it.world.str_to_int(it, v) if hasattr(it.world, 'str_to_int') else _outside('int(symbolic str)')
    if v is None: it.raise_('TypeError', 'int() argument must be a string or a number')
    raise OutsideSubset('int()')
def _outside(msg): raise OutsideSubset(msg)
def _b_min(it, *a, **k): return _minmax(it, a, k, True)
def _b_max(it, *a, **k): return _minmax(it, a, k, False)
def _minmax(it, a, k, is_min):
    xs = it.iterate(a[0]) if len(a) == 1 else list(a)
    if not xs:
        if 'default' in k: return k['default']
        it.raise_('ValueError', 'arg is an empty sequence')
    if all(isinstance(x, (int, str)) for x in xs): return min(xs) if is_min else max(xs)
    raise OutsideSubset('min/max symbolic')
def _b_type(it, v):
    if isinstance(v, PObj): return v.cls
    if isinstance(v, (str, SStr)): return BUILTINS['str']
    if isinstance(v, PDict): return BUILTINS['dict']
    if isinstance(v, list): return BUILTINS['list']
    raise OutsideSubset('type()')
def _b_range(it, *a):
    if all(isinstance(x, int) for x in a): return list(range(*a))
    raise OutsideSubset('range symbolic')
def _b_sum(it, v, start=0):
    out = start
    for x in it.iterate(v): out = it.binop(ast.Add(), out, x)
    return out
def _b_callable(it, v): return isinstance(v, (PFunc, PBuiltin, PBound, PClass)) or hasattr(v, 'pyvc_call')
def _b_super(it, *a): raise OutsideSubset('super()')
def _b_issubclass(it, a, b):
    if isinstance(a, PClass) and isinstance(b, PClass): return a.is_sub(b)
    raise OutsideSubset('issubclass')
BUILTINS = {}
for _n, _f in [('str', _b_str), ('repr', _b_repr), ('isinstance', _b_isinstance), ('len', _b_len), ('list', _b_list), ('tuple', _b_tuple), ('set', _b_set),
               ('dict', _b_dict), ('any', _b_any), ('all', _b_all), ('bool', _b_bool), ('getattr', _b_getattr), ('hasattr', _b_hasattr), ('setattr', _b_setattr),
               ('hash', _b_hash), ('reversed', _b_reversed), ('frozenset', _b_set),
               ('enumerate', _b_enumerate), ('zip', _b_zip), ('filter', _b_filter), ('map', _b_map), ('sorted', _b_sorted), ('next', _b_next), ('iter', _b_iter),
               ('int', _b_int), ('min', _b_min), ('max', _b_max), ('type', _b_type), ('range', _b_range), ('sum', _b_sum), ('callable', _b_callable),
               ('super', _b_super), ('issubclass', _b_issubclass),
               ('print', lambda it, *a, **k: None)]:
    BUILTINS[_n] = PBuiltin(_f, _n)
BUILTINS['object'] = OBJECT
OBJECT.ns['__new__'] = PBuiltin(lambda it, cls, *a, **k: PObj(cls), 'object.__new__')
OBJECT.ns['__new__'].is_static = True
BUILTINS['property'] = PBuiltin(lambda it, f: _mark_prop(f), 'property'); BUILTINS['None'] = None
BUILTINS['staticmethod'] = PBuiltin(lambda it, f: _mark(f, 'is_static'), 'staticmethod')
BUILTINS['classmethod'] = PBuiltin(lambda it, f: _mark(f, 'is_classmethod'), 'classmethod')
BUILTINS['NotImplemented'] = Opaque('NotImplemented'); BUILTINS['Ellipsis'] = Opaque('Ellipsis')
BUILTINS['__debug__'] = True
def _mark_prop(f): f.is_property = True; return f
def _mark(f, a): setattr(f, a, True); return f

# ------------------------------------------------------------------ str methods
WS = ' \t\n\r\x0b\x0c'
def _lit(it, s):
    if isinstance(s, str): return s
    if isinstance(s, SStr):
        n = it.st.norm(s)
        if n.is_lit(): return n.lit()
    return None
def _s_count(it, s, c):
    ls, lc = _lit(it, s), _lit(it, c)
    if ls is not None and lc is not None: return ls.count(lc)
    if lc is not None and len(lc) > 1: return _count_multi(it, s, lc)
    if not (lc is not None and len(lc) == 1): raise OutsideSubset('count with a symbolic needle')
    sn = it.st.norm(S(s))
    if all(isinstance(a, str) or lc in it.st.excl.get(a.name, ()) for a in sn.atoms):
        return sum(a.count(lc) for a in sn.atoms if isinstance(a, str))        # exact: no variable can contain the character
    parts, _ = it.st.split(s, lc, 1, f'count {lc!r}')
    return 0 if len(parts) == 1 else CountGE1()
def _vars_cannot_touch(it, sn, needle):
    """every variable atom is non-empty and free of every character of the needle: an occurrence of the needle lies inside one literal atom"""
    st = it.st
    return all(isinstance(a, str) or (a.name in st.nonempty and all(ch in st.excl.get(a.name, ()) for ch in set(needle))) for a in sn.atoms)
def _count_multi(it, s, needle):
    sn = it.st.norm(S(s))
    if not _vars_cannot_touch(it, sn, needle): raise OutsideSubset(f'count of {needle!r} in a string whose variables may contain or straddle it')
    return sum(a.count(needle) for a in sn.atoms if isinstance(a, str))
def _s_split(it, s, c=None, maxsplit=-1):
    ls, lc = _lit(it, s), _lit(it, c) if c is not None else None
    if ls is not None and (c is None or lc is not None): return ls.split(lc, maxsplit)
    if lc is None: raise OutsideSubset('split() on symbolic')
    if lc == '': it.raise_('ValueError', 'empty separator')
    if len(lc) != 1: return _s_split_multi(it, s, lc, maxsplit)
    parts, open_tail = it.st.split(s, lc, maxsplit, f'split {lc!r}', max_open=getattr(it, 'split_max_open', 12))
    parts = [simp(p) for p in parts]
    return OpenList(parts) if open_tail else parts
def _s_split_multi(it, s, sep, maxsplit):
    """split on a multi-character literal separator: exact when every variable atom is non-empty and free of the separator's
    characters (then the separator can only occur inside literal atoms)"""
    st = it.st; sn = st.norm(s)
    for a in sn.atoms:
        if isinstance(a, Var) and not (a.name in st.nonempty and all(ch in st.excl.get(a.name, ()) for ch in set(sep))):
            raise OutsideSubset(f'split on {sep!r} of a string whose variables may contain or straddle the separator')
    parts = [[]]
    for a in sn.atoms:
        if isinstance(a, Var): parts[-1].append(a); continue
        rest = a
        while sep in rest and (maxsplit < 0 or len(parts) - 1 < maxsplit):
            i = rest.index(sep); parts[-1].append(rest[:i]); parts.append([]); rest = rest[i + len(sep):]
        parts[-1].append(rest)
    return [simp(SStr(p)) for p in parts]
def _s_rsplit(it, s, c=None, maxsplit=-1):
    ls, lc = _lit(it, s), _lit(it, c) if c is not None else None
    if ls is not None and (c is None or lc is not None): return ls.rsplit(lc, maxsplit)
    if lc is None or len(lc) != 1 or maxsplit != 1: raise OutsideSubset('rsplit on symbolic')
    return [simp(p) for p in it.st.rsplit1(s, lc, f'rsplit {lc!r}')]
def _s_join(it, sep, items):
    xs = it.iterate(items)
    return it.concat(_interleave(it, sep, xs))
def _interleave(it, sep, items):
    out = []
    for i, x in enumerate(items):
        if i: out.append(sep)
        if not isinstance(x, (str, SStr)): it.raise_('TypeError', 'sequence item: expected str instance')
        out.append(x)
    return out
def interleave(sep, items):
    out = []
    for i, x in enumerate(items):
        if i: out.append(sep)
        out.append(x)
    return out
def _s_format(it, s, *args, **kw):
    s = _lit(it, s)
    if s is None: raise OutsideSubset('format on symbolic template')
    out = []; i = 0
    try: parsed = list(_string.Formatter().parse(s))
    except ValueError: it.raise_('ValueError', 'bad format string')
    for lit, field, spec, conv in parsed:
        out.append(lit)
        if field is not None:
            if spec: raise OutsideSubset('format spec')
            if field == '':
                if i >= len(args): it.raise_('IndexError', 'Replacement index out of range')
                v = args[i]; i += 1
            elif field.isdigit():
                if int(field) >= len(args): it.raise_('IndexError', 'Replacement index out of range')
                v = args[int(field)]
            else:
                if '.' in field or '[' in field: raise OutsideSubset('format field access')
                if field not in kw: it.raise_('KeyError', field)
                v = kw[field]
            out.append(_b_repr(it, v) if conv == 'r' else it.to_str(v))
    return it.concat(out)
def _percent_format(it, fmt, arg):
    args = list(arg) if isinstance(arg, tuple) else [arg]
    out = []; i = 0; pos = 0
    import re as _re
    for m in _re.finditer(r'%(0?\d*)([sdr%])', fmt):
        out.append(fmt[pos:m.start()]); pos = m.end()
        if m.group(2) == '%': out.append('%'); continue
        if i >= len(args): it.raise_('TypeError', 'not enough arguments for format string')
        v = args[i]; i += 1
        if m.group(2) == 's' and not m.group(1): out.append(it.to_str(v))
        elif m.group(2) == 'd' and isinstance(v, int) and not isinstance(v, bool): out.append(('%' + m.group(1) + 'd') % v)
        elif m.group(2) == 'd' and isinstance(v, SInt) and hasattr(it.world, 'int_to_str'): out.append(it.world.int_to_str(it, v, m.group(1)))
        else: raise OutsideSubset('% format ' + m.group(0))
    out.append(fmt[pos:])
    if i < len(args): it.raise_('TypeError', 'not all arguments converted during string formatting')
    return it.concat(out)
def _s_startswith(it, s, p):
    if isinstance(p, tuple): return it.disj([_s_startswith(it, s, q) for q in p])        # a tuple of prefixes: any of them
    ls, lp = _lit(it, s), _lit(it, p)
    if lp is None: raise OutsideSubset('startswith symbolic prefix')
    if ls is not None: return ls.startswith(lp)
    sn = it.st.norm(s)
    if sn.atoms and isinstance(sn.atoms[0], str) and (len(sn.atoms[0]) >= len(lp)): return sn.atoms[0].startswith(lp)
    if sn.atoms and isinstance(sn.atoms[0], str) and not lp.startswith(sn.atoms[0]): return False
    if lp == '': return True
    if sn.atoms and isinstance(sn.atoms[0], Var) and sn.atoms[0].name in it.st.nonempty and lp[0] in it.st.excl.get(sn.atoms[0].name, ()): return False
    if len(sn.atoms) == 1: return SBool(z3.PrefixOf(z3.StringVal(lp), sn.z()))
    if isinstance(sn.atoms[0], Var) and len(lp) == 1:
        # first atom may be empty: x + rest startswith c  <=>  x starts with c, or x == '' and rest starts with c
        x = sn.atoms[0]; rest = _s_startswith(it, SStr(sn.atoms[1:]), lp)
        a = z3.BoolVal(False) if lp in it.st.excl.get(x.name, ()) else z3.PrefixOf(z3.StringVal(lp), x.z)
        return SBool(z3.Or(a, z3.And(x.z == z3.StringVal(''), zb(rest))))
    return SBool(z3.PrefixOf(z3.StringVal(lp), sn.z()))
def _s_endswith(it, s, p):
    if isinstance(p, tuple): return it.disj([_s_endswith(it, s, q) for q in p])
    ls, lp = _lit(it, s), _lit(it, p)
    if lp is None: raise OutsideSubset('endswith symbolic suffix')
    if ls is not None: return ls.endswith(lp)
    sn = it.st.norm(s)
    if sn.atoms and isinstance(sn.atoms[-1], str) and (len(sn.atoms[-1]) >= len(lp)): return sn.atoms[-1].endswith(lp)
    if sn.atoms and isinstance(sn.atoms[-1], str) and not lp.endswith(sn.atoms[-1]): return False
    if lp == '': return True
    if sn.atoms and isinstance(sn.atoms[-1], Var) and sn.atoms[-1].name in it.st.nonempty and lp[-1] in it.st.excl.get(sn.atoms[-1].name, ()): return False
    if len(sn.atoms) == 1: return SBool(z3.SuffixOf(z3.StringVal(lp), sn.z()))
    if isinstance(sn.atoms[-1], Var) and len(lp) == 1:
        x = sn.atoms[-1]; rest = _s_endswith(it, SStr(sn.atoms[:-1]), lp)
        a = z3.BoolVal(False) if lp in it.st.excl.get(x.name, ()) else z3.SuffixOf(z3.StringVal(lp), x.z)
        return SBool(z3.Or(a, z3.And(x.z == z3.StringVal(''), zb(rest))))
    return SBool(z3.SuffixOf(z3.StringVal(lp), sn.z()))
def _s_replace(it, s, old, new, count=-1):
    ls, lo, ln = _lit(it, s), _lit(it, old), _lit(it, new)
    if ls is not None and lo is not None and ln is not None: return ls.replace(lo, ln, count)
    if lo is not None and ln is not None and lo == ln: return s
    if count != -1: raise OutsideSubset('replace with count')
    if lo is not None and len(lo) == 1:
        parts, open_tail = it.st.split(s, lo, -1, f'replace {lo!r}', max_open=8)
        if open_tail: raise OutsideSubset('replace: too many occurrences')
        return it.concat(interleave(new, [simp(p) for p in parts]))
    if lo is not None and len(lo) > 1 and ln is not None:
        return _replace_multi(it, s, lo, ln)
    raise OutsideSubset('replace symbolic')
def _replace_multi(it, s, old, new):
    """str.replace with a multi-character literal needle on a structured string.
    Exact when no occurrence can touch a variable; otherwise the case 'no occurrence touches a variable' is split off with the solver and the
    other case is outside the subset (its result cannot be written structurally)."""
    st = it.st; sn = st.norm(S(s))
    if _vars_cannot_touch(it, sn, old):
        return simp(SStr([a.replace(old, new) if isinstance(a, str) else a for a in sn.atoms]))
    # remove the occurrences that lie inside literal atoms; ask whether the needle can still occur in what remains
    marker = '\x00\x01'
    stripped = SStr([a.replace(old, marker) if isinstance(a, str) else a for a in sn.atoms])
    occurs = SBool(z3.Contains(stripped.z(), z3.StringVal(old)))
    if not st.branch(occurs, f'replace {old!r} touches a variable'):
        return simp(SStr([a.replace(old, new) if isinstance(a, str) else a for a in sn.atoms]))
    raise OutsideSubset(f'replace of multi-character needle {old!r} that may overlap symbolic parts')
def _strip_side(it, atoms, cs, right):
    """exact strip of the characters `cs` from one side of a structured string (list of atoms, modified in place)"""
    from .sstr import charset, SC
    st = it.st
    csre = charset([(SC.LITERAL, ord(c)) for c in cs]); notcs = charset([(SC.NEGATE, None)] + [(SC.LITERAL, ord(c)) for c in cs])
    anyc = z3.Star(charset([(SC.NEGATE, None)]))
    idx = -1 if right else 0
    while atoms:
        a = atoms[idx]
        if isinstance(a, str):
            a2 = a.rstrip(cs) if right else a.lstrip(cs)
            if a2:
                atoms[idx] = a2; return
            atoms.pop(idx); continue
        if set(cs) <= st.excl.get(a.name, set()):
            # the variable contains no strip character: it stops the stripping unless it is empty
            if st.branch(SBool(a.z == z3.StringVal('')), 'strip:empty'):
                st.subst_lit(SStr([a]), ''); atoms.pop(idx); continue
            return
        keep = z3.Concat(anyc, notcs) if right else z3.Concat(notcs, anyc)
        mixed = z3.Concat(anyc, notcs, z3.Plus(csre)) if right else z3.Concat(z3.Plus(csre), notcs, anyc)
        k = st.choose([('empty', [a.z == z3.StringVal('')]), ('clean-edge', [z3.InRe(a.z, keep)]), ('strippable-edge', [z3.InRe(a.z, mixed)]),
                       ('all-strip', [z3.InRe(a.z, z3.Plus(csre))])], 'strip')
        if k == 0: st.subst_lit(SStr([a]), ''); atoms.pop(idx); continue
        if k == 1: return
        if k == 3: atoms.pop(idx); continue
        st.pc.pop()
        n = len(st.subst); ex = st.excl.get(a.name, set())
        w = Var(f'{a.name}.{n}w'); t = Var(f'{a.name}.{n}t'); st.excl[w.name] = set(ex); st.excl[t.name] = set(ex)
        st.do_subst(a, (w, t) if right else (t, w))
        st.assume(z3.InRe(w.z, keep)); st.assume(z3.InRe(t.z, z3.Plus(csre)))
        atoms[idx] = w; return
def _s_strip(it, s, chars=None, sides='lr'):
    ls = _lit(it, s); lc = _lit(it, chars) if chars is not None else None
    if chars is not None and lc is None: raise OutsideSubset('strip with symbolic chars')
    if ls is not None:
        return ls.strip(lc) if sides == 'lr' else ls.lstrip(lc) if sides == 'l' else ls.rstrip(lc)
    if not isinstance(s, SStr): it.raise_('TypeError', 'strip on non-string')
    cs = WS if chars is None else lc
    atoms = list(it.st.norm(s).atoms)
    if cs:
        if 'l' in sides: _strip_side(it, atoms, cs, False)
        if 'r' in sides: _strip_side(it, atoms, cs, True)
    return simp(SStr(atoms))
def _s_lower(it, s):
    ls = _lit(it, s)
    if ls is not None: return ls.lower()
    raise OutsideSubset('lower symbolic')
def _s_upper(it, s):
    ls = _lit(it, s)
    if ls is not None: return ls.upper()
    raise OutsideSubset('upper symbolic')
def _s_isdigit(it, s):
    ls = _lit(it, s)
    if ls is not None: return ls.isdigit()
    raise OutsideSubset('isdigit symbolic')
def _s_find(it, s, sub):
    ls, lsub = _lit(it, s), _lit(it, sub)
    if ls is not None and lsub is not None: return ls.find(lsub)
    raise OutsideSubset('find symbolic')
def _s_index(it, s, sub):
    ls, lsub = _lit(it, s), _lit(it, sub)
    if ls is not None and lsub is not None:
        if lsub not in ls: it.raise_('ValueError', 'substring not found')
        return ls.index(lsub)
    raise OutsideSubset('index symbolic')
def _s_partition(it, s, sep):
    ls, lsep = _lit(it, s), _lit(it, sep)
    if ls is not None and lsep is not None: return ls.partition(lsep)
    if lsep is None or len(lsep) != 1: raise OutsideSubset('partition symbolic')
    parts, _ = it.st.split(s, lsep, 1, f'partition {lsep!r}')
    if len(parts) == 1: return (simp(parts[0]), '', '')
    return (simp(parts[0]), lsep, simp(parts[1]))
def _s_rpartition(it, s, sep):
    ls, lsep = _lit(it, s), _lit(it, sep)
    if ls is not None and lsep is not None: return ls.rpartition(lsep)
    if lsep is None or len(lsep) != 1: raise OutsideSubset('rpartition symbolic')
    parts = it.st.rsplit1(s, lsep, f'rpartition {lsep!r}')
    if len(parts) == 1: return ('', '', simp(parts[0]))
    return (simp(parts[0]), lsep, simp(parts[1]))
def _s_encode(it, s, *a): return Opaque('bytes')
STR_METHODS = {'count': _s_count, 'split': _s_split, 'rsplit': _s_rsplit, 'join': _s_join, 'format': _s_format, 'startswith': _s_startswith, 'endswith': _s_endswith,
               'replace': _s_replace, 'strip': _s_strip, 'lower': _s_lower, 'upper': _s_upper, 'isdigit': _s_isdigit, 'find': _s_find, 'index': _s_index,
               'partition': _s_partition, 'rpartition': _s_rpartition, 'encode': _s_encode,
               'lstrip': lambda it, s, c=None: _s_strip(it, s, c, 'l'), 'rstrip': lambda it, s, c=None: _s_strip(it, s, c, 'r'),
               'zfill': lambda it, s, n: _lit(it, s).zfill(n) if _lit(it, s) is not None else _outside('zfill symbolic'),
               'title': lambda it, s: _lit(it, s).title() if _lit(it, s) is not None else _outside('title symbolic'),
               'capitalize': lambda it, s: _lit(it, s).capitalize() if _lit(it, s) is not None else _outside('capitalize symbolic')}
# ------------------------------------------------------------------ dict methods
def _d_get(it, d, k, default=None):
    for kk, v in d.items:
        if it.key_eq(kk, k): return v
    return default
def _d_update(it, d, other=None, **kw):
    if isinstance(other, PDict):
        for k, v in list(other.items): it.dict_set(d, k, v)
    elif other is not None:
        for kv in it.iterate(other):
            k, v = it.iterate(kv) if not isinstance(kv, (tuple, list)) else kv
            it.dict_set(d, k, v)
    for k, v in kw.items(): it.dict_set(d, k, v)
def _d_pop(it, d, k, *default):
    for i, (kk, v) in enumerate(d.items):
        if it.key_eq(kk, k): del d.items[i]; return v
    if default: return default[0]
    it.raise_('KeyError', k if isinstance(k, (str, SStr)) else 'key')
def _d_popitem(it, d):
    if not d.items: it.raise_('KeyError', 'popitem(): dictionary is empty')
    return tuple(d.items.pop())
def _d_setdefault(it, d, k, default=None):
    for kk, v in d.items:
        if it.key_eq(kk, k): return v
    d.items.append([k, default]); return default
DICT_METHODS = {'get': _d_get, 'copy': lambda it, d: PDict(d.items), 'keys': lambda it, d: DictKeys(d), 'values': lambda it, d: [v for _, v in d.items],
                'items': lambda it, d: [(k, v) for k, v in d.items], 'update': _d_update, 'pop': _d_pop, 'popitem': _d_popitem,
                'clear': lambda it, d: d.items.clear(), 'setdefault': _d_setdefault}
# ------------------------------------------------------------------ list methods
def _l_remove(it, l, x):
    for i, y in enumerate(l):
        if it.known_eq(y, x): del l[i]; return
    it.raise_('ValueError', 'list.remove(x): x not in list')
def _l_index(it, l, x):
    for i, y in enumerate(l):
        if it.known_eq(y, x): return i
    it.raise_('ValueError', 'x is not in list')
def _l_count(it, l, x): return sum(1 for y in l if it.known_eq(y, x))
def _l_pop(it, l, i=-1):
    if not l: it.raise_('IndexError', 'pop from empty list')
    if not -len(l) <= i < len(l): it.raise_('IndexError', 'pop index out of range')
    return l.pop(i)
def _l_sort(it, l, key=None, reverse=False):
    l[:] = _b_sorted(it, l, key=key, reverse=reverse)
def _l_extend(it, l, x): l.extend(it.iterate(x))
LIST_METHODS = {'append': lambda it, l, x: l.append(x), 'extend': _l_extend, 'copy': lambda it, l: list(l),
                'remove': _l_remove, 'index': _l_index, 'insert': lambda it, l, i, x: l.insert(i, x), 'pop': _l_pop, 'count': _l_count,
                'sort': _l_sort, 'reverse': lambda it, l: l.reverse(), 'clear': lambda it, l: l.clear()}
def _set_add(it, s, x):
    if isinstance(x, (PDict, list, PSet)): it.raise_('TypeError', 'unhashable type')
    for y in s.items:
        if it.key_eq(y, x): return
    s.items.append(x)
def _set_union(it, s, *others):
    r = PSet(s.items)
    for other in others:
        for x in it.iterate(other): _set_add(it, r, x)
    return r
def _set_discard(it, s, x):
    for i, y in enumerate(s.items):
        if it.known_eq(y, x): del s.items[i]; return
def _set_remove(it, s, x):
    for i, y in enumerate(s.items):
        if it.known_eq(y, x): del s.items[i]; return
    it.raise_('KeyError', 'set.remove')
def _set_update(it, s, *others):
    for other in others:
        for x in it.iterate(other): _set_add(it, s, x)
SET_METHODS = {'add': _set_add, 'union': _set_union, 'discard': _set_discard, 'remove': _set_remove, 'update': _set_update, 'copy': lambda it, s: PSet(s.items),
               'intersection': lambda it, s, o: PSet([x for x in s.items if it.contains(o, x)]),
               'difference': lambda it, s, o: PSet([x for x in s.items if not it.contains(o, x)]),
               'issubset': lambda it, s, o: all(it.contains(o, x) for x in s.items)}
