#!/bin/bash
# Builds /verif/.venv offline: python 3.12 venv with z3-solver, cvc5, crosshair-tool, jsonschema from the local wheelhouse,
# plus a .pth that makes /venv's site-packages (the repo's editable install, resolva, ...) importable in the same interpreter.
set -e
cd "$(dirname "$0")"
PY=/root/.pyenv/versions/3.12.1/bin/python
[ -x "$PY" ] || PY=$(readlink -f /venv/bin/python)
if [ ! -x .venv/bin/python ] || ! .venv/bin/python -c "import z3, cvc5, jsonschema" 2>/dev/null; then
  rm -rf .venv
  "$PY" -m venv .venv
  PIP_NO_INDEX=1 .venv/bin/pip install -q --no-index --find-links /opt/veriftools/wheels z3-solver cvc5 crosshair-tool icontract deal jsonschema
  echo "import site; site.addsitedir('/venv/lib/python3.12/site-packages')" > .venv/lib/python3.12/site-packages/zz_repo.pth
fi
.venv/bin/python -c "import z3, cvc5, jsonschema; print('venv ok', z3.get_version_string())"
